//! C04 — scenario `tx-history`: sighash must depend only on the transaction's current contents.
//!
//! World: one or more real `Transaction` objects (forks share ancestry), each shadowed by a plain
//! model. The scheduler interleaves every public mutator with sighash/sign calls of all 14 flag
//! values, clones ("fork"), and restarts through wire/JSON/CBOR encodings (the memo cache is
//! volatile state that a restart loses). Oracles run after every event on every live object.

use crate::core::*;
use crate::rng::Rng;
use bsv::{PrivateKey, Script, SigHash, SighashSignature, Signature, Transaction, TxIn, TxOut};
use serde_json::{json, Value};

pub struct TxHistory;

pub const FLAGS: [u8; 14] = [0x40, 0x01, 0x02, 0x03, 0x80, 0x41, 0x42, 0x43, 0xc1, 0xc2, 0xc3, 0x81, 0x82, 0x83];
const SLOT_NAMES: [&str; 3] = ["hash_inputs", "hash_sequence", "hash_outputs"];

pub fn flag_name(f: u8) -> &'static str {
    match f {
        0x40 => "FORKID",
        0x01 => "ALL",
        0x02 => "NONE",
        0x03 => "SINGLE",
        0x80 => "ANYONECANPAY",
        0x41 => "InputsOutputs",
        0x42 => "Inputs",
        0x43 => "InputsOutput",
        0xc1 => "InputOutputs",
        0xc2 => "Input",
        0xc3 => "InputOutput",
        0x81 => "Legacy_InputOutputs",
        0x82 => "Legacy_Input",
        0x83 => "Legacy_InputOutput",
        _ => "invalid",
    }
}

/// which memo slots a flag reads/fills (I, S, O)
fn flag_slots(f: u8) -> (bool, bool, bool) {
    match f {
        0x41 => (true, true, true),
        0x42 => (true, false, false),
        0x43 => (true, false, false),
        0xc1 => (false, false, true),
        _ => (false, false, false),
    }
}

#[derive(Clone, Debug, PartialEq)]
pub struct MIn {
    pub txid: Vec<u8>,
    pub vout: u32,
    pub script: Vec<u8>,
    pub seq: u32,
}
#[derive(Clone, Debug, PartialEq)]
pub struct MOut {
    pub value: u64,
    pub script: Vec<u8>,
}
#[derive(Clone, Debug, PartialEq)]
pub struct Model {
    pub version: u32,
    pub ins: Vec<MIn>,
    pub outs: Vec<MOut>,
    pub locktime: u32,
}

pub fn varint(n: u64) -> Vec<u8> {
    if n <= 252 {
        vec![n as u8]
    } else if n <= 0xffff {
        let mut v = vec![0xfd];
        v.extend_from_slice(&(n as u16).to_le_bytes());
        v
    } else if n <= 0xffff_ffff {
        let mut v = vec![0xfe];
        v.extend_from_slice(&(n as u32).to_le_bytes());
        v
    } else {
        let mut v = vec![0xff];
        v.extend_from_slice(&n.to_le_bytes());
        v
    }
}

/// compact size written wider than necessary: width 3 (fd), 5 (fe) or 9 (ff) bytes
fn varint_wide(n: u64, width: u64) -> Vec<u8> {
    match width {
        0 if n <= 0xffff => {
            let mut v = vec![0xfd];
            v.extend_from_slice(&(n as u16).to_le_bytes());
            v
        }
        1 if n <= 0xffff_ffff => {
            let mut v = vec![0xfe];
            v.extend_from_slice(&(n as u32).to_le_bytes());
            v
        }
        _ => {
            let mut v = vec![0xff];
            v.extend_from_slice(&n.to_le_bytes());
            v
        }
    }
}

impl Model {
    /// the same transaction with some of its compact sizes written non-minimally (mask: 1 input count, 2 input script
    /// lengths, 4 output count, 8 output script lengths)
    pub fn serialise_nonminimal(&self, mask: u64, width: u64) -> Vec<u8> {
        let vi = |n: u64, bit: u64| if mask & bit != 0 { varint_wide(n, width) } else { varint(n) };
        let mut b = vec![];
        b.extend_from_slice(&self.version.to_le_bytes());
        b.extend(vi(self.ins.len() as u64, 1));
        for i in &self.ins {
            let mut t = i.txid.clone();
            t.reverse();
            b.extend(t);
            b.extend_from_slice(&i.vout.to_le_bytes());
            b.extend(vi(i.script.len() as u64, 2));
            b.extend_from_slice(&i.script);
            b.extend_from_slice(&i.seq.to_le_bytes());
        }
        b.extend(vi(self.outs.len() as u64, 4));
        for o in &self.outs {
            b.extend_from_slice(&o.value.to_le_bytes());
            b.extend(vi(o.script.len() as u64, 8));
            b.extend_from_slice(&o.script);
        }
        b.extend_from_slice(&self.locktime.to_le_bytes());
        b
    }

    pub fn serialise(&self) -> Vec<u8> {
        let mut b = vec![];
        b.extend_from_slice(&self.version.to_le_bytes());
        b.extend(varint(self.ins.len() as u64));
        for i in &self.ins {
            let mut t = i.txid.clone();
            t.reverse();
            b.extend(t);
            b.extend_from_slice(&i.vout.to_le_bytes());
            b.extend(varint(i.script.len() as u64));
            b.extend_from_slice(&i.script);
            b.extend_from_slice(&i.seq.to_le_bytes());
        }
        b.extend(varint(self.outs.len() as u64));
        for o in &self.outs {
            b.extend_from_slice(&o.value.to_le_bytes());
            b.extend(varint(o.script.len() as u64));
            b.extend_from_slice(&o.script);
        }
        b.extend_from_slice(&self.locktime.to_le_bytes());
        b
    }
}

struct Obj {
    tx: Transaction,
    model: Model,
    /// false once the library's serialisation was seen to differ from the harness model (the model only steers generation)
    model_valid: bool,
    last_mut: String,
    depth: u32,
    /// snapshot for the isolation oracle
    snap_bytes: Vec<u8>,
    snap_slots: [Option<Vec<u8>>; 3],
    /// expected slot values for snap_bytes (computed lazily)
    expect: Option<[Vec<u8>; 3]>,
    /// history, not internals: a FORKID signature-hash call has succeeded on this object (or on the one it was cloned from)
    /// since it was last rebuilt from a serialisation - i.e. an implementation that memoises has had the chance to
    primed: bool,
}

/// Does the object behave, for any cache-reading flag and input, differently from a freshly parsed copy of its own serialisation?
/// Used to turn "the hook shows a slot that a fresh object would not compute" into a verdict: a memo that is stale but never
/// honoured (lazy invalidation) is not a violation, one that is honoured is.
fn behaviour_differs(tx: &mut Transaction, bytes: &[u8]) -> Option<String> {
    let mut fresh = Transaction::from_bytes(bytes).ok()?;
    let n = tx.get_ninputs().min(4);
    if n == 0 {
        let (a, b) = (tx.hash_inputs(SigHash::InputsOutputs), fresh.hash_inputs(SigHash::InputsOutputs));
        return if a != b { Some("hash_inputs(InputsOutputs)".into()) } else { None };
    }
    let sub = Script::default();
    for f in [0x41u8, 0x42, 0x43, 0xc1, 0xc2, 0xc3] {
        let flag = SigHash::try_from(f).ok()?;
        for i in 0..n {
            let a = tx.sighash_preimage(flag, i, &sub, 1).ok();
            let b = fresh.sighash_preimage(flag, i, &sub, 1).ok();
            if a != b {
                return Some(format!("sighash_preimage({}, input {})", flag_name(f), i));
            }
        }
    }
    None
}

fn mk_txin(v: &Value) -> Option<(TxIn, MIn)> {
    let txid = jhex(v, "txid");
    if txid.len() != 32 {
        return None;
    }
    let script_bytes = jhex(v, "script");
    let script = Script::from_bytes(&script_bytes).ok()?;
    if script.to_bytes() != script_bytes {
        return None;
    }
    let vout = ju64(v, "vout") as u32;
    let seq = ju64(v, "seq") as u32;
    let mut t = TxIn::new(&txid, vout, &script, Some(seq));
    if v.get("sat").is_some() {
        t.set_satoshis(ju64s(v, "sat"));
    }
    if v.get("lock").is_some() {
        if let Ok(l) = Script::from_bytes(&jhex(v, "lock")) {
            t.set_locking_script(&l);
        }
    }
    Some((t, MIn { txid, vout, script: script_bytes, seq }))
}

fn mk_txout(v: &Value) -> Option<(TxOut, MOut)> {
    let script_bytes = jhex(v, "script");
    let script = Script::from_bytes(&script_bytes).ok()?;
    if script.to_bytes() != script_bytes {
        return None;
    }
    let value = ju64s(v, "value");
    Some((TxOut::new(value, &script), MOut { value, script: script_bytes }))
}

/// The same script with its first data push written with another push opcode (direct push <-> OP_PUSHDATA1 <-> OP_PUSHDATA2):
/// same items on the stack, different serialisation. None when there is no push or the library does not keep the encoding.
fn reencode_first_push(script: &[u8]) -> Option<Vec<u8>> {
    let mut p = 0;
    while p < script.len() {
        let op = script[p];
        let (hdr, len, next_hdr): (usize, usize, Option<Vec<u8>>) = match op {
            1..=75 => (1, op as usize, Some(vec![0x4c, op])),
            0x4c if p + 1 < script.len() => {
                let l = script[p + 1] as usize;
                (2, l, Some(if l >= 1 && l <= 75 && p % 2 == 0 { vec![l as u8] } else { vec![0x4d, l as u8, 0] }))
            }
            0x4d if p + 2 < script.len() => (3, u16::from_le_bytes([script[p + 1], script[p + 2]]) as usize, None),
            0x4e => return None,
            _ => (1, 0, None),
        };
        if let Some(h) = next_hdr {
            if p + hdr + len > script.len() {
                return None;
            }
            let mut out = script[..p].to_vec();
            out.extend(h);
            out.extend_from_slice(&script[p + hdr..]);
            let parsed = Script::from_bytes(&out).ok()?;
            return if parsed.to_bytes() == out { Some(out) } else { None };
        }
        p += hdr + len;
    }
    None
}

/// Replacement element derived from the one it replaces ("near neighbours": identical, one field changed, same meaning in another encoding)
fn derive_out(cur: &MOut, how: &str, given: &MOut) -> Option<MOut> {
    Some(match how {
        "same" => cur.clone(),
        "reencode" => MOut { value: cur.value, script: reencode_first_push(&cur.script)? },
        "value_only" => MOut { value: cur.value ^ 1, script: cur.script.clone() },
        "script_only" => MOut { value: cur.value, script: given.script.clone() },
        _ => return None,
    })
}

fn derive_in(cur: &MIn, how: &str, given: &MIn) -> Option<MIn> {
    Some(match how {
        "same" => cur.clone(),
        "reencode" => MIn { script: reencode_first_push(&cur.script)?, ..cur.clone() },
        "value_only" => MIn { seq: cur.seq ^ 1, ..cur.clone() },
        "script_only" => MIn { script: given.script.clone(), ..cur.clone() },
        "vout_only" => MIn { vout: cur.vout ^ 1, ..cur.clone() },
        _ => return None,
    })
}

fn txout_of(m: &MOut) -> Option<TxOut> {
    Some(TxOut::new(m.value, &Script::from_bytes(&m.script).ok()?))
}

fn txin_of(m: &MIn) -> Option<TxIn> {
    Some(TxIn::new(&m.txid, m.vout, &Script::from_bytes(&m.script).ok()?, Some(m.seq)))
}

/// The three memo slots as the verification hook shows them; all empty when the harness was built without that hook
/// (`--cfg bsv_verif_no_hashcache`, the fallback `check` takes when a refactor of the library stops the accessor from compiling).
#[cfg(not(bsv_verif_no_hashcache))]
fn slots_of(tx: &Transaction) -> [Option<Vec<u8>>; 3] {
    tx.verif_hash_cache()
}
#[cfg(bsv_verif_no_hashcache)]
fn slots_of(_tx: &Transaction) -> [Option<Vec<u8>>; 3] {
    [None, None, None]
}

fn expected_slots(bytes: &[u8]) -> Option<[Vec<u8>; 3]> {
    // what a history-free object computes for the three memo slots
    let mut fresh = Transaction::from_bytes(bytes).ok()?;
    if fresh.get_ninputs() == 0 {
        // nothing but the public hash_inputs() can fill a slot on a transaction without inputs
        let hi = fresh.hash_inputs(SigHash::InputsOutputs);
        return Some([hi, vec![], vec![]]);
    }
    fresh.sighash_preimage(SigHash::InputsOutputs, 0, &Script::default(), 0).ok()?;
    let s = slots_of(&fresh);
    Some([s[0].clone()?, s[1].clone()?, s[2].clone()?])
}

impl TxHistory {
    fn gen_script(rng: &mut Rng) -> String {
        let k = rng.below(9);
        let b: Vec<u8> = match k {
            0 => vec![],
            1 => {
                // p2pkh-like
                let mut v = vec![0x76, 0xa9, 0x14];
                v.extend(rng.bytes(20));
                v.extend([0x88, 0xac]);
                v
            }
            2 => {
                let n = rng.range(1, 75) as usize;
                let mut v = vec![n as u8];
                v.extend(rng.bytes(n));
                v
            }
            3 => vec![0x51],
            4 => {
                // OP_RETURN data via PUSHDATA1
                let n = rng.range(76, 255) as usize;
                let mut v = vec![0x6a, 0x4c, n as u8];
                v.extend(rng.bytes(n));
                v
            }
            5 => vec![0x76, 0xab, 0xac], // DUP CODESEPARATOR CHECKSIG
            6 => vec![0x63, 0x51, 0x67, 0x52, 0x68], // IF 1 ELSE 2 ENDIF
            7 if rng.chance(1, 40) => {
                // a script whose length sits on the 16-bit compact-size boundary (PUSHDATA2 / PUSHDATA4 of 65 532 - 65 536 bytes)
                let n = *rng.pick(&[65_532usize, 65_533, 65_535, 65_536]);
                let mut v = if n <= 65_535 { vec![0x4d, (n & 0xff) as u8, (n >> 8) as u8] } else { vec![0x4e, 0x00, 0x00, 0x01, 0x00] };
                v.extend(rng.bytes(n));
                v
            }
            7 => {
                // PUSHDATA2 crossing the 253 compact-size boundary
                let n = rng.range(256, 300) as usize;
                let mut v = vec![0x4d];
                v.extend_from_slice(&(n as u16).to_le_bytes());
                v.extend(rng.bytes(n));
                v
            }
            _ => vec![0xab, 0x51, 0xab],
        };
        hx(&b)
    }

    fn gen_txin(rng: &mut Rng, txids: &[String], scripts: &[String]) -> Value {
        let seqs = [0u32, 1, 0xffff_fffe, 0xffff_ffff];
        let seq = if rng.chance(1, 5) { rng.next() as u32 } else { *rng.pick(&seqs) };
        let vout = if rng.chance(1, 6) { 0xffff_ffffu32 } else { rng.below(4) as u32 };
        let mut v = json!({"txid": rng.pick(txids).clone(), "vout": vout, "script": rng.pick(scripts).clone(), "seq": seq});
        if rng.chance(1, 3) {
            v["sat"] = u64s(Self::gen_value(rng));
            v["lock"] = json!(rng.pick(scripts).clone());
        }
        v
    }

    fn gen_value(rng: &mut Rng) -> u64 {
        match rng.below(6) {
            0 => 0,
            1 => 1,
            2 => u64::MAX,
            3 => 1u64 << 53,
            4 => rng.below(100_000_000),
            _ => rng.next(),
        }
    }

    fn gen_txout(rng: &mut Rng, scripts: &[String]) -> Value {
        json!({"value": u64s(Self::gen_value(rng)), "script": rng.pick(scripts).clone()})
    }
}

pub const SYS_OPS: usize = 41;

impl TxHistory {
    pub fn systematic_total(depth: u32) -> u64 {
        (1..=depth).map(|d| (SYS_OPS as u64).pow(d)).sum()
    }

    /// the k-th operation of the compact alphabet as a concrete event on object `obj`
    fn sys_op(k: usize, obj: usize) -> Event {
        let tid = |b: u8| hx(&[b; 32]);
        let txin = |b: u8, vout: u32, seq: u32| json!({"txid": tid(b), "vout": vout, "script": "", "seq": seq});
        let sh = |flag: u8, idx: usize| json!({"op": "sighash", "obj": obj, "flag": flag, "idx": idx, "sub": "51", "value": "1000"});
        match k {
            0 => json!({"op": "add_input", "obj": obj, "txin": txin(0xa1, 0, 5)}),
            1 => json!({"op": "prepend_input", "obj": obj, "txin": txin(0xa2, 1, 6)}),
            2 => json!({"op": "insert_input", "obj": obj, "idx": 1, "txin": txin(0xa3, 2, 7)}),
            // the starting inputs are (0x11.., vout 0, seq 1) and (0x22.., vout 1, seq 2)
            3 => json!({"op": "set_input", "obj": obj, "idx": 0, "txin": txin(0x11, 0, 9)}),  // same outpoint, new sequence
            4 => json!({"op": "set_input", "obj": obj, "idx": 1, "txin": txin(0x22, 3, 2)}),  // same txid and sequence, new vout
            5 => json!({"op": "set_input", "obj": obj, "idx": 1, "txin": txin(0xa4, 1, 2)}),  // new txid, same sequence
            6 => json!({"op": "add_inputs", "obj": obj, "txins": []}),
            7 => json!({"op": "add_output", "obj": obj, "txout": {"value": "7", "script": "51"}}),
            8 => json!({"op": "prepend_output", "obj": obj, "txout": {"value": "8", "script": "52"}}),
            9 => json!({"op": "insert_output", "obj": obj, "idx": 0, "txout": {"value": "9", "script": "53"}}),
            10 => json!({"op": "insert_output", "obj": obj, "idx": 1, "txout": {"value": "10", "script": "54"}}),
            11 => json!({"op": "set_output", "obj": obj, "idx": 0, "txout": {"value": "11", "script": "55"}}),
            12 => json!({"op": "set_output", "obj": obj, "idx": 1, "txout": {"value": "12", "script": "56"}}),
            13 => json!({"op": "set_version", "obj": obj, "value": 7, "keep_returned": false}),
            14 => json!({"op": "set_nlocktime", "obj": obj, "value": 9, "keep_returned": true}), // the returned clone becomes a fork
            15 => sh(0x41, 0),
            16 => sh(0x41, 1),
            17 => sh(0x42, 0),
            18 => sh(0x43, 0),
            19 => sh(0x43, 1),
            20 => sh(0xc1, 0),
            21 => sh(0xc1, 1),
            22 => sh(0xc3, 1),
            23 => sh(0xc2, 0),
            24 => sh(0x01, 0),
            25 => sh(0x03, 1),
            26 => sh(0x43, 2), // SINGLE past the outputs / inputs: error outcome must agree with a fresh copy
            27 => json!({"op": "sign", "obj": obj, "flag": 0x41, "idx": 0, "sub": "51", "value": "1000", "key": format!("{:064x}", 1)}),
            28 => json!({"op": "hash_inputs", "obj": obj, "flag": 0x41}),
            29 => json!({"op": "fork", "obj": obj}),
            30 => json!({"op": "restart", "obj": obj, "kind": "wire"}),
            31 => json!({"op": "read", "obj": obj, "kind": "get_id_hex"}),
            // insertion at index == len (a legal append; the lists start with two elements and never shrink)
            32 => json!({"op": "insert_output", "obj": obj, "idx": 2, "txout": {"value": "13", "script": "57"}}),
            33 => json!({"op": "insert_input", "obj": obj, "idx": 2, "txin": txin(0xa5, 4, 8)}),
            // bulk adders with something in them, restarts through the two other serialisations, and replacements that are
            // near neighbours of what they replace (an equal element written back; the value alone changed)
            34 => json!({"op": "add_inputs", "obj": obj, "txins": [txin(0xb1, 0, 3), txin(0xb2, 1, 4)]}),
            35 => json!({"op": "add_outputs", "obj": obj, "txouts": [{"value": "14", "script": "58"}, {"value": "15", "script": "59"}]}),
            36 => json!({"op": "restart", "obj": obj, "kind": "json"}),
            37 => json!({"op": "restart", "obj": obj, "kind": "cbor"}),
            38 => json!({"op": "set_output", "obj": obj, "idx": 0, "txout": {"value": "16", "script": "5a"}, "derive": "same"}),
            39 => json!({"op": "set_output", "obj": obj, "idx": 1, "txout": {"value": "17", "script": "5b"}, "derive": "value_only"}),
            _ => json!({"op": "switch"}),
        }
    }

    /// None when `index` lies beyond the enumerated prefix
    pub fn systematic_plan(index: u64, depth: u32) -> Option<Plan> {
        if index >= Self::systematic_total(depth) {
            return None;
        }
        // which depth block, then the digits
        let mut rest = index;
        let mut d = 1u32;
        loop {
            let block = (SYS_OPS as u64).pow(d);
            if rest < block {
                break;
            }
            rest -= block;
            d += 1;
        }
        let mut digits = vec![];
        for _ in 0..d {
            digits.push((rest % SYS_OPS as u64) as usize);
            rest /= SYS_OPS as u64;
        }
        digits.reverse();
        let mut events = vec![
            json!({"op": "add_inputs", "obj": 0, "txins": [{"txid": hx(&[0x11; 32]), "vout": 0, "script": "", "seq": 1}, {"txid": hx(&[0x22; 32]), "vout": 1, "script": "", "seq": 2}]}),
            json!({"op": "add_outputs", "obj": 0, "txouts": [{"value": "1", "script": "51"}, {"value": "2", "script": "52"}]}),
        ];
        // "switch" moves the cursor between the objects that exist at that point
        let mut cur = 0usize;
        let mut n_obj = 1usize;
        for k in &digits {
            if *k == SYS_OPS - 1 {
                cur = (cur + 1) % n_obj;
                continue;
            }
            if (*k == 29 || *k == 14) && n_obj < 4 {
                n_obj += 1;
            }
            events.push(Self::sys_op(*k, cur));
        }
        Some(Plan { config: json!({"systematic": true, "depth": d, "digits": digits}), events })
    }
}

impl Scenario for TxHistory {
    fn info(&self) -> ScenarioInfo {
        ScenarioInfo {
            property: "C04",
            name: "tx-history",
            rule: "the first run indices enumerate systematically every sequence up to depth 3 (quick) / 4 (thorough) over a 41-operation alphabet (every mutator incl. non-empty bulk adders, every cache-filling flag class, out-of-range SINGLE, sign, hash_inputs, fork, switch-object, restart through wire / JSON / CBOR, replacement by an equal element and by one that differs in the value only) applied to a 2-input/2-output transaction; after that one case = one seeded history of 5-40 public API calls (12 mutators: add/prepend/insert/set/bulk-add for inputs and outputs, set_version/set_nlocktime; bursts of one mutator, replacements derived from the replaced element, out-of-range positional calls; sighash_preimage / sign / sign_with_k with all 14 flag values, hash_inputs, read-only calls, clone forks, restarts through wire/JSON/CBOR and through a JSON document with one number edited) on 1-4 live Transaction objects; non-trivial = at least one memo slot was filled when a later mutator or restart/fork arrived (a stale window existed) ; distinct = distinct fingerprint of the (object, op-kind, flag/index class, fault-kind) sequence, payload bytes ignored",
            abstract_state: "(bucket(n_in), bucket(n_out), set of filled memo slots subset of {I,S,O}, last mutator kind, fork depth)",
            real: &["bsv::Transaction (all mutators, sighash_preimage, sign, sign_with_k, verify, hash_inputs, clone, to/from bytes, JSON, CBOR)", "bsv::TxIn", "bsv::TxOut", "bsv::Script::from_bytes", "bsv::PrivateKey", "bsv::SighashSignature"],
            stub: &["model transaction (plain Vec operations) with a 30-line reference serialiser", "history-free oracle object = Transaction::from_bytes(current serialisation)"],
            assumptions: &["restart-json/cbor events are applied only when the restored object re-serialises to the same wire bytes (coinbase inputs do not; that is C18's subject)", "API preconditions respected by the generator: insert index <= len, set index < len, 32-byte txids, well-formed scripts"],
            required_probes: &["slot_filled_then_mutated", "sighash_after_mutation", "restart_applied", "fork_applied", "flag_class_ISO", "flag_class_O_only", "set_input_with_filled_slot", "set_output_with_filled_slot"],
            quick_runs: 120_000,
            thorough_runs: 6_000_000,
            rlimit_as: 8 << 30,
            alloc_abort_is_violation: true,
        }
    }

    fn generate(&self, rng: &mut Rng, tier: Tier, index: u64) -> Plan {
        // ---- systematic prefix: the first run indices enumerate EVERY sequence up to a fixed depth over a compact
        // operation alphabet (every mutator, every cache-filling flag class, fork/switch/restart); the seeded random
        // histories follow. Depth 3 in quick (70 643 sequences), depth 4 in thorough (2 896 404).
        if let Some(p) = Self::systematic_plan(index, if tier == Tier::Thorough { 4 } else { 3 }) {
            return p;
        }
        // ---- swarm configuration
        let n_events = rng.range(5, 40) as usize;
        let n_txids = rng.range(2, 5) as usize;
        let mut txids: Vec<String> = (0..n_txids).map(|_| hx(&rng.bytes(32))).collect();
        if rng.chance(1, 4) {
            txids.push("00".repeat(32));
        }
        let scripts: Vec<String> = (0..rng.range(3, 6)).map(|_| Self::gen_script(rng)).collect();
        let keys: Vec<String> = (0..3)
            .map(|i| {
                let mut k = rng.bytes(32);
                k[0] &= 0x7f;
                if i == 0 && rng.chance(1, 4) {
                    k = vec![0; 32];
                    k[31] = 1;
                }
                hx(&k)
            })
            .collect();
        // mutator kinds: weights, with random subsets disabled
        let mut_names = ["add_input", "prepend_input", "insert_input", "set_input", "add_inputs", "add_output", "prepend_output", "insert_output", "set_output", "add_outputs", "set_version", "set_nlocktime"];
        let mut mut_w: Vec<u32> = mut_names.iter().map(|_| if rng.chance(3, 4) { rng.range(1, 4) as u32 } else { 0 }).collect();
        if mut_w.iter().all(|w| *w == 0) {
            mut_w[rng.usize(mut_names.len())] = 1;
        }
        let flag_w: Vec<u32> = FLAGS.iter().map(|f| if rng.chance(2, 3) { if flag_slots(*f) != (false, false, false) { 4 } else { 1 } } else { 0 }).collect();
        let flag_w = if flag_w.iter().all(|w| *w == 0) { FLAGS.iter().map(|_| 1).collect() } else { flag_w };
        let restart_on = rng.chance(2, 3);
        let fork_on = rng.chance(2, 3);
        let bursts_on = rng.chance(1, 5);
        let misuse_on = rng.chance(1, 4);
        let config = json!({"n_events": n_events, "mutators": mut_names.iter().zip(mut_w.iter()).filter(|(_, w)| **w > 0).map(|(n, _)| *n).collect::<Vec<_>>(),
            "flags": FLAGS.iter().zip(flag_w.iter()).filter(|(_, w)| **w > 0).map(|(f, _)| flag_name(*f)).collect::<Vec<_>>(), "restart": restart_on, "fork": fork_on});

        // ---- light generator-side model: per object (n_in, n_out)
        let mut objs: Vec<(usize, usize)> = vec![(0, 0)];
        let mut events: Vec<Event> = vec![];
        // start from a small populated transaction most of the time
        if rng.chance(4, 5) {
            let k = rng.range(1, 3);
            let ins: Vec<Value> = (0..k).map(|_| Self::gen_txin(rng, &txids, &scripts)).collect();
            events.push(json!({"op": "add_inputs", "obj": 0, "txins": ins}));
            objs[0].0 += k as usize;
            let k = rng.range(1, 3);
            let outs: Vec<Value> = (0..k).map(|_| Self::gen_txout(rng, &scripts)).collect();
            events.push(json!({"op": "add_outputs", "obj": 0, "txouts": outs}));
            objs[0].1 += k as usize;
        }
        // bias state: Some((obj, side)) after a slot-filling event
        let mut hot: Option<(usize, u8, u8)> = None; // (obj, side: 0 inputs / 1 outputs, stage)
        while events.len() < n_events {
            let o = match hot {
                Some((o, _, _)) if o < objs.len() => o,
                _ => rng.usize(objs.len()),
            };
            let (n_in, n_out) = objs[o];
            // choose event class
            let class = match hot {
                Some((_, _, 0)) if rng.chance(3, 5) => 0, // mutator of matching side
                Some((_, _, 1)) if rng.chance(3, 5) => 1, // sighash reading the slot
                _ => rng.weighted(&[30, 34, 8, 8, if restart_on { 8 } else { 0 }, if fork_on { 6 } else { 0 }, 6]),
            };
            match class {
                0 => {
                    // mutator
                    let side = match hot {
                        Some((_, s, 0)) => Some(s),
                        _ => None,
                    };
                    let mut w = mut_w.clone();
                    if let Some(s) = side {
                        for (i, n) in mut_names.iter().enumerate() {
                            let is_in = n.contains("input");
                            let is_out = n.contains("output");
                            if (s == 0 && !is_in) || (s == 1 && !is_out) {
                                w[i] = 0;
                            }
                        }
                        if w.iter().all(|x| *x == 0) {
                            w = mut_w.clone();
                        }
                    }
                    let m = mut_names[rng.weighted(&w)];
                    if misuse_on && rng.chance(1, 10) && matches!(m, "insert_input" | "set_input" | "insert_output" | "set_output") {
                        let is_in = m.contains("input");
                        let mut e = json!({"op": "misuse", "obj": o, "what": m, "over": *rng.pick(&[0u64, 0, 1, 7])});
                        if is_in {
                            e["txin"] = Self::gen_txin(rng, &txids, &scripts);
                        } else {
                            e["txout"] = Self::gen_txout(rng, &scripts);
                        }
                        events.push(e);
                        if let Some((ho, s, 0)) = hot {
                            hot = Some((ho, s, 1));
                        }
                        continue;
                    }
                    if bursts_on && rng.chance(1, 6) && matches!(m, "set_input" | "set_output" | "add_inputs" | "add_outputs") {
                        if (m == "set_input" && n_in == 0) || (m == "set_output" && n_out == 0) || n_in > 1500 || n_out > 1500 {
                            continue;
                        }
                        let k = match rng.below(10) {
                            0 if m.starts_with("set_") => (*rng.pick(&[65_536i64, 65_536, 65_535, 65_537])) as u64,
                            _ => (*rng.pick(&[256i64, 256, 256, 128, 255, 257, 512, 127, 64, 16])) as u64,
                        };
                        let is_in = m.contains("input");
                        let (a, b) = if is_in { (Self::gen_txin(rng, &txids, &scripts), Self::gen_txin(rng, &txids, &scripts)) } else { (Self::gen_txout(rng, &scripts), Self::gen_txout(rng, &scripts)) };
                        if m == "add_inputs" {
                            objs[o].0 += (k as usize).min(600);
                        }
                        if m == "add_outputs" {
                            objs[o].1 += (k as usize).min(600);
                        }
                        events.push(json!({"op": "burst", "obj": o, "what": m, "n": k, "idx": if is_in { rng.usize(n_in.max(1)) } else { rng.usize(n_out.max(1)) }, "a": a, "b": b}));
                        if let Some((ho, s, 0)) = hot {
                            hot = Some((ho, s, 1));
                        }
                        continue;
                    }
                    let ev = match m {
                        "add_input" | "prepend_input" => {
                            objs[o].0 += 1;
                            json!({"op": m, "obj": o, "txin": Self::gen_txin(rng, &txids, &scripts)})
                        }
                        "insert_input" => {
                            let idx = rng.usize(n_in + 1);
                            objs[o].0 += 1;
                            json!({"op": m, "obj": o, "idx": idx, "txin": Self::gen_txin(rng, &txids, &scripts)})
                        }
                        "set_input" => {
                            if n_in == 0 {
                                continue;
                            }
                            json!({"op": m, "obj": o, "idx": rng.usize(n_in), "txin": Self::gen_txin(rng, &txids, &scripts), "derive": if rng.chance(1, 3) { *rng.pick(&["same", "reencode", "value_only", "script_only", "vout_only", "taken", "taken"]) } else { "" }, "from_obj": rng.below(4), "from_idx": rng.below(4)})
                        }
                        "add_inputs" => {
                            let k = rng.range(0, 3);
                            objs[o].0 += k as usize;
                            json!({"op": m, "obj": o, "txins": (0..k).map(|_| Self::gen_txin(rng, &txids, &scripts)).collect::<Vec<_>>()})
                        }
                        "add_output" | "prepend_output" => {
                            objs[o].1 += 1;
                            json!({"op": m, "obj": o, "txout": Self::gen_txout(rng, &scripts)})
                        }
                        "insert_output" => {
                            let idx = rng.usize(n_out + 1);
                            objs[o].1 += 1;
                            json!({"op": m, "obj": o, "idx": idx, "txout": Self::gen_txout(rng, &scripts)})
                        }
                        "set_output" => {
                            if n_out == 0 {
                                continue;
                            }
                            json!({"op": m, "obj": o, "idx": rng.usize(n_out), "txout": Self::gen_txout(rng, &scripts), "derive": if rng.chance(1, 3) { *rng.pick(&["same", "reencode", "reencode", "value_only", "script_only"]) } else { "" }})
                        }
                        "add_outputs" => {
                            let k = rng.range(0, 3);
                            objs[o].1 += k as usize;
                            json!({"op": m, "obj": o, "txouts": (0..k).map(|_| Self::gen_txout(rng, &scripts)).collect::<Vec<_>>()})
                        }
                        "set_version" | "set_nlocktime" => {
                            let keep = fork_on && rng.chance(1, 3) && objs.len() < 4;
                            if keep {
                                objs.push(objs[o]);
                            }
                            let val = match rng.below(4) {
                                0 => 0u32,
                                1 => 1,
                                2 => u32::MAX,
                                _ => rng.next() as u32,
                            };
                            json!({"op": m, "obj": o, "value": val, "keep_returned": keep})
                        }
                        _ => unreachable!(),
                    };
                    events.push(ev);
                    hot = match hot {
                        Some((ho, s, 0)) => Some((ho, s, 1)),
                        _ => None,
                    };
                }
                1 => {
                    // sighash / sign
                    let flag = match hot {
                        Some((_, 0, 1)) => *rng.pick(&[0x41u8, 0x42, 0x43]),
                        Some((_, 1, 1)) => *rng.pick(&[0x41u8, 0xc1]),
                        _ => FLAGS[rng.weighted(&flag_w)],
                    };
                    let idx = if n_in > 0 && rng.chance(9, 10) { rng.usize(n_in) } else { n_in + rng.usize(2) };
                    let sub = rng.pick(&scripts).clone();
                    let value = Self::gen_value(rng);
                    let kind = rng.weighted(&[6, 3, 1, 1]);
                    let ev = match kind {
                        0 => json!({"op": "sighash", "obj": o, "flag": flag, "idx": idx, "sub": sub, "value": u64s(value)}),
                        1 => json!({"op": "sign", "obj": o, "flag": flag, "idx": idx, "sub": sub, "value": u64s(value), "key": rng.pick(&keys).clone()}),
                        2 => json!({"op": "sign_with_k", "obj": o, "flag": flag, "idx": idx, "sub": sub, "value": u64s(value), "key": rng.pick(&keys).clone(), "k": rng.pick(&keys).clone()}),
                        _ => json!({"op": "hash_inputs", "obj": o, "flag": flag}),
                    };
                    events.push(ev);
                    let (fi, _fs, fo) = flag_slots(flag);
                    hot = match hot {
                        Some((_, _, 1)) => None,
                        _ if (fi || fo) && rng.chance(3, 5) => {
                            let side = if fi && fo { rng.below(2) as u8 } else if fi { 0 } else { 1 };
                            Some((o, side, 0))
                        }
                        _ => None,
                    };
                }
                2 => {
                    let kinds = ["to_bytes", "get_id_hex", "get_size", "get_outpoints", "is_coinbase", "to_json_string", "to_compact_bytes", "get_input", "get_output", "eq_self_clone"];
                    events.push(json!({"op": "read", "obj": o, "kind": *rng.pick(&kinds)}));
                }
                3 => {
                    // a different object gets an event next: breaks the bias on purpose
                    hot = None;
                    continue;
                }
                4 => {
                    let kind = *rng.pick(&["wire", "wire", "json", "cbor", "json_edit", "wire_nonminimal"]);
                    events.push(json!({"op": "restart", "obj": o, "kind": kind, "edit": *rng.pick(&["output_value", "sequence", "vout"]), "r": rng.below(16), "mask": rng.range(1, 15), "width": rng.below(3)}));
                    if kind == "json_edit" || kind == "wire_nonminimal" {
                        // the memo a document might have carried along is read next
                        hot = Some((o, if rng.chance(1, 2) { 0 } else { 1 }, 1));
                    }
                }
                5 => {
                    if objs.len() >= 2 && rng.chance(1, 3) {
                        // round 11: an existing object is overwritten in place with the contents of another one
                        // (`Clone::clone_from`, what `a.clone_from(&b)` and some container operations call); whatever the
                        // destination remembered about its old contents must not outlive the assignment
                        let mut from = rng.usize(objs.len());
                        if from == o {
                            from = (from + 1) % objs.len();
                        }
                        objs[o] = objs[from];
                        events.push(json!({"op": "assign", "obj": o, "from": from}));
                        hot = Some((o, rng.below(2) as u8, 1));
                    } else if objs.len() < 4 {
                        objs.push(objs[o]);
                        events.push(json!({"op": "fork", "obj": o}));
                    }
                }
                _ => {
                    // sighash with an out-of-range index or on an empty object
                    let flag = FLAGS[rng.usize(FLAGS.len())];
                    events.push(json!({"op": "sighash", "obj": o, "flag": flag, "idx": n_in + rng.usize(3), "sub": rng.pick(&scripts).clone(), "value": u64s(0)}));
                }
            }
        }
        Plan { config, events }
    }

    fn execute(&self, plan: &Plan, ctx: &mut RunCtx) {
        let mut objs: Vec<Obj> = vec![];
        let t0 = Transaction::new(2, 0);
        objs.push(Obj {
            snap_bytes: t0.to_bytes().unwrap_or_default(),
            snap_slots: [None, None, None],
            tx: t0,
            model: Model { version: 2, ins: vec![], outs: vec![], locktime: 0 },
            model_valid: true,
            last_mut: "new".into(),
            depth: 0,
            expect: None,
            primed: false,
        });

        for (seq, ev) in plan.events.iter().enumerate() {
            if ctx.stopped() {
                return;
            }
            let op = jstr(ev, "op").to_string();
            let o = jusize(ev, "obj");
            ctx.seq = seq;
            ctx.crumb(&op);
            if o >= objs.len() {
                ctx.skip();
                continue;
            }
            // "a memo may exist" is decided from the history of calls, never from the library's internals: the probes below
            // must fire on an implementation that memoises differently or not at all
            let any_filled = objs[o].primed;
            let mut new_obj: Option<Obj> = None;
            let mut touched_cache_ok = false; // event is allowed to change memo slots of obj o
            let mut is_mutator = false;
            let mut arg_class = String::new();

            macro_rules! lib {
                ($label:expr, $e:expr) => {
                    match guard(|| $e) {
                        Ok(v) => v,
                        Err(p) => {
                            if ctx.violate("panic", format!("panic@{}#{}", site_file(&p.site), $label), format!("{} panicked at {}: {}", $label, p.site, p.msg)) {
                                return;
                            }
                            continue;
                        }
                    }
                };
            }

            // the same call on the live object and on its history-free twin: a panic is an outcome like Ok and Err, and C04 only
            // asks that the two agree (whether an out-of-range index may panic is not its business)
            macro_rules! pair {
                ($label:expr, $live:expr, $fresh:expr) => {{
                    let a = guard(|| $live);
                    let b = guard(|| $fresh);
                    match (a, b) {
                        (Ok(x), Ok(y)) => (x, y),
                        (Err(_), Err(_)) => {
                            ctx.probe("live_and_fresh_object_panicked_alike");
                            ctx.observe_str("panic");
                            continue;
                        }
                        (Err(p), Ok(_)) | (Ok(_), Err(p)) => {
                            if ctx.violate("mismatch", format!("mismatch:{}-outcome one side panicked", $label), format!("{} panicked at {} ({}) on only one of the live object and its freshly parsed copy", $label, p.site, p.msg)) {
                                return;
                            }
                            continue;
                        }
                    }
                }};
            }
            // calls whose panics are nobody's verdict here (read-only accessors on possibly empty lists)
            macro_rules! quiet {
                ($e:expr) => {
                    match guard(|| $e) {
                        Ok(v) => Some(v),
                        Err(_) => {
                            ctx.probe("note:read_only_call_panicked");
                            None
                        }
                    }
                };
            }

            match op.as_str() {
                "add_input" | "prepend_input" | "insert_input" | "set_input" => {
                    let (mut txin, mut min) = match ev.get("txin").and_then(mk_txin) {
                        Some(x) => x,
                        None => {
                            ctx.skip();
                            continue;
                        }
                    };
                    let idx = jusize(ev, "idx");
                    let n = objs[o].model.ins.len();
                    let derive = jstr(ev, "derive");
                    if op == "set_input" && derive == "taken" {
                        // round 12: the replacement is the very object the library handed out - `get_input(j)` of this or of
                        // another live transaction, untouched (what a swap of two inputs or a copy between transactions does)
                        let fo = jusize(ev, "from_obj") % objs.len();
                        let fi = jusize(ev, "from_idx");
                        if objs[fo].model_valid && fi < objs[fo].model.ins.len() {
                            if let Ok(Some(t)) = guard(|| objs[fo].tx.get_input(fi)) {
                                ctx.probe("replacement_taken_from_get_input");
                                if fo != o {
                                    ctx.probe("replacement_taken_from_another_object");
                                }
                                txin = t;
                                min = objs[fo].model.ins[fi].clone();
                            }
                        }
                    } else if op == "set_input" && !derive.is_empty() && idx < n && objs[o].model_valid {
                        if let Some(d) = derive_in(&objs[o].model.ins[idx], derive, &min) {
                            if let Some(t) = txin_of(&d) {
                                ctx.probe(&format!("replacement_derived:{}", derive));
                                txin = t;
                                min = d;
                            }
                        }
                    }
                    match op.as_str() {
                        "insert_input" if idx > n => {
                            ctx.skip();
                            continue;
                        }
                        "set_input" if idx >= n => {
                            ctx.skip();
                            continue;
                        }
                        _ => {}
                    }
                    ctx.event(seq, &op, "");
                    let t = &mut objs[o].tx;
                    match op.as_str() {
                        "add_input" => {
                            lib!("add_input", t.add_input(&txin));
                            objs[o].model.ins.push(min)
                        }
                        "prepend_input" => {
                            lib!("prepend_input", t.prepend_input(&txin));
                            objs[o].model.ins.insert(0, min)
                        }
                        "insert_input" => {
                            lib!("insert_input", t.insert_input(idx, &txin));
                            objs[o].model.ins.insert(idx, min)
                        }
                        _ => {
                            lib!("set_input", t.set_input(idx, &txin));
                            objs[o].model.ins[idx] = min;
                            if any_filled {
                                ctx.probe("set_input_with_filled_slot");
                            }
                        }
                    }
                    is_mutator = true;
                }
                "misuse" => {
                    // a positional mutator is given an index beyond the list. Whether that panics, errs or is clamped is not C04's
                    // business; what the object is like AFTERWARDS is: it must still answer like a fresh parse of whatever it now holds
                    let what = jstr(ev, "what").to_string();
                    let over = jusize(ev, "over");
                    arg_class = what.clone();
                    ctx.event(seq, &op, &arg_class);
                    let (n_ins, n_outs) = (objs[o].model.ins.len(), objs[o].model.outs.len());
                    let t = &mut objs[o].tx;
                    let r = match what.as_str() {
                        "insert_input" | "set_input" => match ev.get("txin").and_then(mk_txin) {
                            Some((txin, _)) => {
                                let idx = n_ins + over + if what == "insert_input" { 1 } else { 0 };
                                guard(|| if what == "insert_input" { t.insert_input(idx, &txin) } else { t.set_input(idx, &txin) })
                            }
                            None => {
                                ctx.skip();
                                continue;
                            }
                        },
                        _ => match ev.get("txout").and_then(mk_txout) {
                            Some((txout, _)) => {
                                let idx = n_outs + over + if what == "insert_output" { 1 } else { 0 };
                                guard(|| if what == "insert_output" { t.insert_output(idx, &txout) } else { t.set_output(idx, &txout) })
                            }
                            None => {
                                ctx.skip();
                                continue;
                            }
                        },
                    };
                    ctx.probe(if r.is_ok() { "out_of_range_mutator_returned" } else { "out_of_range_mutator_panicked" });
                    ctx.fault("refused-call");
                    is_mutator = true;
                }
                "burst" => {
                    // the same kind of mutator many times in a row with nothing in between: counts around powers of two
                    let what = jstr(ev, "what").to_string();
                    let k = jusize(ev, "n").min(70_000);
                    let idx = jusize(ev, "idx");
                    arg_class = format!("{}x{}", what, k);
                    match what.as_str() {
                        "set_input" | "add_inputs" => {
                            let (a, b) = match (ev.get("a").and_then(mk_txin), ev.get("b").and_then(mk_txin)) {
                                (Some(a), Some(b)) => (a, b),
                                _ => {
                                    ctx.skip();
                                    continue;
                                }
                            };
                            if what == "set_input" {
                                if idx >= objs[o].model.ins.len() || k == 0 {
                                    ctx.skip();
                                    continue;
                                }
                                ctx.event(seq, &op, &arg_class);
                                let t = &mut objs[o].tx;
                                lib!("set_input (burst)", {
                                    for j in 0..k {
                                        t.set_input(idx, if j % 2 == 0 { &a.0 } else { &b.0 });
                                    }
                                });
                                objs[o].model.ins[idx] = if (k - 1) % 2 == 0 { a.1 } else { b.1 };
                            } else {
                                let k = k.min(600);
                                ctx.event(seq, &op, &arg_class);
                                let list: Vec<TxIn> = (0..k).map(|j| if j % 2 == 0 { a.0.clone() } else { b.0.clone() }).collect();
                                let t = &mut objs[o].tx;
                                lib!("add_inputs (burst)", t.add_inputs(list));
                                for j in 0..k {
                                    objs[o].model.ins.push(if j % 2 == 0 { a.1.clone() } else { b.1.clone() });
                                }
                            }
                        }
                        _ => {
                            let (a, b) = match (ev.get("a").and_then(mk_txout), ev.get("b").and_then(mk_txout)) {
                                (Some(a), Some(b)) => (a, b),
                                _ => {
                                    ctx.skip();
                                    continue;
                                }
                            };
                            if what == "set_output" {
                                if idx >= objs[o].model.outs.len() || k == 0 {
                                    ctx.skip();
                                    continue;
                                }
                                ctx.event(seq, &op, &arg_class);
                                let t = &mut objs[o].tx;
                                lib!("set_output (burst)", {
                                    for j in 0..k {
                                        t.set_output(idx, if j % 2 == 0 { &a.0 } else { &b.0 });
                                    }
                                });
                                objs[o].model.outs[idx] = if (k - 1) % 2 == 0 { a.1 } else { b.1 };
                            } else {
                                let k = k.min(600);
                                ctx.event(seq, &op, &arg_class);
                                let list: Vec<TxOut> = (0..k).map(|j| if j % 2 == 0 { a.0.clone() } else { b.0.clone() }).collect();
                                let t = &mut objs[o].tx;
                                lib!("add_outputs (burst)", t.add_outputs(list));
                                for j in 0..k {
                                    objs[o].model.outs.push(if j % 2 == 0 { a.1.clone() } else { b.1.clone() });
                                }
                            }
                        }
                    }
                    ctx.probe("mutator_burst");
                    if any_filled {
                        ctx.probe("mutator_burst_after_forkid_sighash");
                    }
                    is_mutator = true;
                }
                "add_inputs" => {
                    let arr = ev.get("txins").and_then(|a| a.as_array()).cloned().unwrap_or_default();
                    let parsed: Vec<(TxIn, MIn)> = arr.iter().filter_map(mk_txin).collect();
                    if parsed.len() != arr.len() {
                        ctx.skip();
                        continue;
                    }
                    ctx.event(seq, &op, if parsed.is_empty() { "empty" } else { "" });
                    let ins: Vec<TxIn> = parsed.iter().map(|p| p.0.clone()).collect();
                    let t = &mut objs[o].tx;
                    lib!("add_inputs", t.add_inputs(ins));
                    objs[o].model.ins.extend(parsed.into_iter().map(|p| p.1));
                    is_mutator = !arr.is_empty();
                }
                "add_output" | "prepend_output" | "insert_output" | "set_output" => {
                    let (mut txout, mut mout) = match ev.get("txout").and_then(mk_txout) {
                        Some(x) => x,
                        None => {
                            ctx.skip();
                            continue;
                        }
                    };
                    let idx = jusize(ev, "idx");
                    let n = objs[o].model.outs.len();
                    let derive = jstr(ev, "derive");
                    if op == "set_output" && !derive.is_empty() && idx < n && objs[o].model_valid {
                        if let Some(d) = derive_out(&objs[o].model.outs[idx], derive, &mout) {
                            if let Some(t) = txout_of(&d) {
                                ctx.probe(&format!("replacement_derived:{}", derive));
                                txout = t;
                                mout = d;
                            }
                        }
                    }
                    match op.as_str() {
                        "insert_output" if idx > n => {
                            ctx.skip();
                            continue;
                        }
                        "set_output" if idx >= n => {
                            ctx.skip();
                            continue;
                        }
                        _ => {}
                    }
                    ctx.event(seq, &op, "");
                    let t = &mut objs[o].tx;
                    match op.as_str() {
                        "add_output" => {
                            lib!("add_output", t.add_output(&txout));
                            objs[o].model.outs.push(mout)
                        }
                        "prepend_output" => {
                            lib!("prepend_output", t.prepend_output(&txout));
                            objs[o].model.outs.insert(0, mout)
                        }
                        "insert_output" => {
                            lib!("insert_output", t.insert_output(idx, &txout));
                            objs[o].model.outs.insert(idx, mout)
                        }
                        _ => {
                            lib!("set_output", t.set_output(idx, &txout));
                            objs[o].model.outs[idx] = mout;
                            if any_filled {
                                ctx.probe("set_output_with_filled_slot");
                            }
                        }
                    }
                    is_mutator = true;
                }
                "add_outputs" => {
                    let arr = ev.get("txouts").and_then(|a| a.as_array()).cloned().unwrap_or_default();
                    let parsed: Vec<(TxOut, MOut)> = arr.iter().filter_map(mk_txout).collect();
                    if parsed.len() != arr.len() {
                        ctx.skip();
                        continue;
                    }
                    ctx.event(seq, &op, if parsed.is_empty() { "empty" } else { "" });
                    let outs: Vec<TxOut> = parsed.iter().map(|p| p.0.clone()).collect();
                    let t = &mut objs[o].tx;
                    lib!("add_outputs", t.add_outputs(outs));
                    objs[o].model.outs.extend(parsed.into_iter().map(|p| p.1));
                    is_mutator = !arr.is_empty();
                }
                "set_version" | "set_nlocktime" => {
                    let val = ju64(ev, "value") as u32;
                    let keep = jbool(ev, "keep_returned");
                    arg_class = if keep { "keep".into() } else { "".into() };
                    ctx.event(seq, &op, &arg_class);
                    let t = &mut objs[o].tx;
                    let returned = if op == "set_version" { lib!("set_version", t.set_version(val)) } else { lib!("set_nlocktime", t.set_nlocktime(val)) };
                    if op == "set_version" {
                        objs[o].model.version = val;
                    } else {
                        objs[o].model.locktime = val;
                    }
                    is_mutator = true;
                    if keep && objs.len() < 4 {
                        // the returned Transaction is a clone carrying the memo cache: a fork
                        ctx.fault("fork");
                        ctx.probe("fork_applied");
                        let rb = returned.to_bytes().unwrap_or_default();
                        let rs = slots_of(&returned);
                        new_obj = Some(Obj { tx: returned, model: objs[o].model.clone(), model_valid: objs[o].model_valid, last_mut: op.clone(), depth: objs[o].depth + 1, snap_bytes: rb, snap_slots: rs, expect: None, primed: objs[o].primed });
                    }
                }
                "sighash" | "sign" | "sign_with_k" => {
                    let flag_b = ju64(ev, "flag") as u8;
                    let flag = match SigHash::try_from(flag_b) {
                        Ok(f) => f,
                        Err(_) => {
                            ctx.skip();
                            continue;
                        }
                    };
                    let idx = jusize(ev, "idx");
                    let sub = match Script::from_bytes(&jhex(ev, "sub")) {
                        Ok(s) => s,
                        Err(_) => {
                            ctx.skip();
                            continue;
                        }
                    };
                    let value = ju64s(ev, "value");
                    let in_range = idx < objs[o].model.ins.len();
                    arg_class = format!("{}{}", flag_name(flag_b), if in_range { "" } else { "/oob" });
                    ctx.event(seq, &op, &arg_class);
                    let (fi, fs, fo) = flag_slots(flag_b);
                    if fi && fs && fo {
                        ctx.probe("flag_class_ISO");
                    } else if fi {
                        ctx.probe("flag_class_I");
                    } else if fo {
                        ctx.probe("flag_class_O_only");
                    } else {
                        ctx.probe("flag_class_none");
                    }
                    if objs[o].last_mut != "new" && any_filled {
                        ctx.probe("sighash_after_mutation");
                    }
                    touched_cache_ok = true;
                    // history-free twin
                    let bytes = lib!("to_bytes", objs[o].tx.to_bytes());
                    let bytes = match bytes {
                        Ok(b) => b,
                        Err(_) => {
                            ctx.probe("to_bytes_err");
                            continue;
                        }
                    };
                    let mut fresh = match lib!("from_bytes(own serialisation)", Transaction::from_bytes(&bytes)) {
                        Ok(f) => f,
                        Err(_) => {
                            ctx.probe("fresh_parse_failed");
                            continue;
                        }
                    };
                    let last_mut = objs[o].last_mut.clone();
                    match op.as_str() {
                        "sighash" => {
                            let t = &mut objs[o].tx;
                            let (got, want) = pair!("sighash_preimage", t.sighash_preimage(flag, idx, &sub, value), fresh.sighash_preimage(flag, idx, &sub, value));
                            match (&got, &want) {
                                (Ok(g), Ok(w)) => {
                                    ctx.observe(g);
                                    if flag_b & 0x40 != 0 {
                                        objs[o].primed = true;
                                    }
                                    if g != w {
                                        if ctx.violate(
                                            "mismatch",
                                            format!("mismatch:preimage flag={} after {}", flag_name(flag_b), last_mut),
                                            format!("sighash_preimage({}, idx {}) on the live object differs from the freshly parsed copy after `{}`: live={} fresh={}", flag_name(flag_b), idx, last_mut, hx(g), hx(w)),
                                        ) {
                                            return;
                                        }
                                    }
                                }
                                (Err(_), Err(_)) => ctx.observe_str("err"),
                                _ => {
                                    if ctx.violate(
                                        "mismatch",
                                        format!("mismatch:preimage-outcome flag={} after {}", flag_name(flag_b), last_mut),
                                        format!("sighash_preimage({}, idx {}) returned {} on the live object but {} on the freshly parsed copy", flag_name(flag_b), idx, if got.is_ok() { "Ok" } else { "Err" }, if want.is_ok() { "Ok" } else { "Err" }),
                                    ) {
                                        return;
                                    }
                                }
                            }
                        }
                        _ => {
                            let key = match PrivateKey::from_bytes(&jhex(ev, "key")) {
                                Ok(k) => k,
                                Err(_) => {
                                    ctx.skip();
                                    continue;
                                }
                            };
                            let kk = if op == "sign_with_k" {
                                match PrivateKey::from_bytes(&jhex(ev, "k")) {
                                    Ok(k) => Some(k),
                                    Err(_) => {
                                        ctx.skip();
                                        continue;
                                    }
                                }
                            } else {
                                None
                            };
                            let t = &mut objs[o].tx;
                            let (got, want) = match &kk {
                                None => pair!("sign", t.sign(&key, flag, idx, &sub, value), fresh.sign(&key, flag, idx, &sub, value)),
                                Some(k) => pair!("sign_with_k", t.sign_with_k(&key, k, flag, idx, &sub, value), fresh.sign_with_k(&key, k, flag, idx, &sub, value)),
                            };
                            match (got, want) {
                                (Ok(g), Ok(w)) => {
                                    let gb = g.to_bytes().unwrap_or_default();
                                    let wb = w.to_bytes().unwrap_or_default();
                                    ctx.observe(&gb);
                                    if flag_b & 0x40 != 0 {
                                        objs[o].primed = true;
                                    }
                                    let bad = gb != wb;
                                    let why = "signature bytes differ from those produced on the freshly parsed copy";
                                    if !bad {
                                        // whether the signature verifies is another property's statement (C05/C15): recorded only
                                        if let Ok(Ok(pk)) = guard(|| key.to_public_key()) {
                                            match guard(|| objs[o].tx.verify(&pk, &g)) {
                                                Ok(true) => ctx.probe("own_signature_verifies_on_live_object"),
                                                _ => ctx.probe("own_signature_does_not_verify_on_live_object"),
                                            }
                                        }
                                    }
                                    if bad {
                                        if ctx.violate("mismatch", format!("mismatch:signature flag={} after {}", flag_name(flag_b), last_mut), format!("{}({}, idx {}) after `{}`: {}", op, flag_name(flag_b), idx, last_mut, why)) {
                                            return;
                                        }
                                    }
                                }
                                (Err(_), Err(_)) => ctx.observe_str("err"),
                                (g, w) => {
                                    if ctx.violate(
                                        "mismatch",
                                        format!("mismatch:sign-outcome flag={} after {}", flag_name(flag_b), last_mut),
                                        format!("{} returned {} on the live object but {} on the freshly parsed copy", op, if g.is_ok() { "Ok" } else { "Err" }, if w.is_ok() { "Ok" } else { "Err" }),
                                    ) {
                                        return;
                                    }
                                }
                            }
                        }
                    }
                }
                "hash_inputs" => {
                    let flag_b = ju64(ev, "flag") as u8;
                    let flag = match SigHash::try_from(flag_b) {
                        Ok(f) => f,
                        Err(_) => {
                            ctx.skip();
                            continue;
                        }
                    };
                    arg_class = flag_name(flag_b).to_string();
                    ctx.event(seq, &op, &arg_class);
                    touched_cache_ok = true;
                    let bytes = objs[o].tx.to_bytes().unwrap_or_default();
                    let last_mut = objs[o].last_mut.clone();
                    let t = &mut objs[o].tx;
                    if let Ok(Ok(mut fresh)) = guard(|| Transaction::from_bytes(&bytes)) {
                        let (got, want) = pair!("hash_inputs", t.hash_inputs(flag), fresh.hash_inputs(flag));
                        objs[o].primed = true;
                        ctx.observe(&got);
                        if got != want {
                            if ctx.violate("mismatch", format!("mismatch:hash_inputs flag={} after {}", flag_name(flag_b), last_mut), format!("hash_inputs({}) live={} fresh={}", flag_name(flag_b), hx(&got), hx(&want))) {
                                return;
                            }
                        }
                    }
                }
                "read" => {
                    let kind = jstr(ev, "kind").to_string();
                    arg_class = kind.clone();
                    ctx.event(seq, &op, &arg_class);
                    let t = &mut objs[o].tx;
                    match kind.as_str() {
                        "to_bytes" => {
                            let _ = quiet!(t.to_bytes());
                        }
                        "get_id_hex" => {
                            if let Some(Ok(s)) = quiet!(t.get_id_hex()) {
                                ctx.observe_str(&s);
                            }
                        }
                        "get_size" => {
                            let _ = quiet!(t.get_size());
                        }
                        "get_outpoints" => {
                            let _ = quiet!(t.get_outpoints());
                        }
                        "is_coinbase" => {
                            let _ = quiet!(t.is_coinbase());
                        }
                        "to_json_string" => {
                            let _ = quiet!(t.to_json_string());
                        }
                        "to_compact_bytes" => {
                            let _ = quiet!(t.to_compact_bytes());
                        }
                        "get_input" => {
                            let _ = quiet!(t.get_input(0));
                        }
                        "get_output" => {
                            let _ = quiet!(t.get_output(0));
                        }
                        _ => {
                            let c = lib!("clone", t.clone());
                            let _ = c == *t;
                        }
                    }
                }
                "assign" => {
                    let from = jusize(ev, "from");
                    if from >= objs.len() || from == o {
                        ctx.skip();
                        continue;
                    }
                    ctx.event(seq, &op, "");
                    ctx.fault("fork");
                    ctx.probe("assign_applied");
                    if objs[o].primed {
                        ctx.probe("assign_onto_primed_object");
                    }
                    let src = lib!("clone", objs[from].tx.clone());
                    let t = &mut objs[o].tx;
                    lib!("clone_from", t.clone_from(&src));
                    objs[o].model = objs[from].model.clone();
                    objs[o].model_valid = objs[from].model_valid;
                    objs[o].primed = objs[o].primed || objs[from].primed;
                    is_mutator = true;
                }
                "fork" => {
                    if objs.len() >= 4 {
                        ctx.skip();
                        continue;
                    }
                    ctx.event(seq, &op, "");
                    ctx.fault("fork");
                    ctx.probe("fork_applied");
                    let c = lib!("clone", objs[o].tx.clone());
                    let cb = c.to_bytes().unwrap_or_default();
                    let cs = slots_of(&c);
                    new_obj = Some(Obj { tx: c, model: objs[o].model.clone(), model_valid: objs[o].model_valid, last_mut: objs[o].last_mut.clone(), depth: objs[o].depth + 1, snap_bytes: cb, snap_slots: cs, expect: objs[o].expect.clone(), primed: objs[o].primed });
                }
                "restart" => {
                    let kind = jstr(ev, "kind").to_string();
                    arg_class = kind.clone();
                    let mut before = objs[o].tx.to_bytes().unwrap_or_default();
                    let mut edited_model: Option<Model> = None;
                    let restored: Option<Transaction> = match kind.as_str() {
                        "wire" => lib!("from_bytes", Transaction::from_bytes(&before)).ok(),
                        "wire_nonminimal" => {
                            // round 12: the object is rebuilt from a wire form of the same transaction in which some compact
                            // sizes are written wider than necessary (accepted by the parser and normalised by to_bytes):
                            // whatever a parser remembers about the bytes it read must be right for what it will serialise
                            if !objs[o].model_valid || objs[o].model.serialise() != before {
                                ctx.skip();
                                continue;
                            }
                            let nm = objs[o].model.serialise_nonminimal(ju64(ev, "mask").max(1), ju64(ev, "width"));
                            lib!("from_bytes", Transaction::from_bytes(&nm)).ok()
                        }
                        "json_edit" => {
                            // the exported document is edited by whoever holds it before it is imported again (one number changed):
                            // whatever else the document carries along must not outlive the edit
                            match lib!("to_json_string", objs[o].tx.to_json_string()) {
                                Ok(s) => {
                                    let mut doc: Value = serde_json::from_str(&s).unwrap_or(Value::Null);
                                    let mut m2 = objs[o].model.clone();
                                    let r = ju64(ev, "r") as usize;
                                    let done = match jstr(ev, "edit") {
                                        "output_value" if !m2.outs.is_empty() => {
                                            let i = r % m2.outs.len();
                                            m2.outs[i].value = if m2.outs[i].value == u64::MAX { u64::MAX - 1 } else { m2.outs[i].value + 1 };
                                            match doc.get_mut("outputs").and_then(|o| o.get_mut(i)).and_then(|o| o.get_mut("value")) {
                                                Some(v) => {
                                                    *v = json!(m2.outs[i].value);
                                                    true
                                                }
                                                None => false,
                                            }
                                        }
                                        "sequence" if !m2.ins.is_empty() => {
                                            let i = r % m2.ins.len();
                                            m2.ins[i].seq ^= 1;
                                            match doc.get_mut("inputs").and_then(|o| o.get_mut(i)).and_then(|o| o.get_mut("sequence")) {
                                                Some(v) => {
                                                    *v = json!(m2.ins[i].seq);
                                                    true
                                                }
                                                None => false,
                                            }
                                        }
                                        "vout" if !m2.ins.is_empty() => {
                                            let i = r % m2.ins.len();
                                            m2.ins[i].vout ^= 1;
                                            match doc.get_mut("inputs").and_then(|o| o.get_mut(i)).and_then(|o| o.get_mut("vout")) {
                                                Some(v) => {
                                                    *v = json!(m2.ins[i].vout);
                                                    true
                                                }
                                                None => false,
                                            }
                                        }
                                        _ => false,
                                    };
                                    if done && objs[o].model_valid {
                                        before = m2.serialise();
                                        edited_model = Some(m2);
                                        lib!("from_json_string", Transaction::from_json_string(&doc.to_string())).ok()
                                    } else {
                                        None
                                    }
                                }
                                Err(_) => None,
                            }
                        }
                        "json" => match lib!("to_json_string", objs[o].tx.to_json_string()) {
                            Ok(s) => lib!("from_json_string", Transaction::from_json_string(&s)).ok(),
                            Err(_) => None,
                        },
                        _ => match lib!("to_compact_bytes", objs[o].tx.to_compact_bytes()) {
                            Ok(b) => lib!("from_compact_bytes", Transaction::from_compact_bytes(&b)).ok(),
                            Err(_) => None,
                        },
                    };
                    let restored = match restored {
                        Some(r) if r.to_bytes().map(|b| b == before).unwrap_or(false) => r,
                        _ => {
                            ctx.probe("restart_not_faithful");
                            ctx.skip();
                            continue;
                        }
                    };
                    ctx.event(seq, &op, &arg_class);
                    ctx.fault(&format!("restart-{}", kind));
                    ctx.probe("restart_applied");
                    if any_filled {
                        ctx.nontrivial = true;
                    }
                    // O5: whatever a restored object carries in its memo must be right for its contents (checked by O2 below
                    // like for every other object); whether it carries anything is the implementation's business
                    if slots_of(&restored).iter().any(|x| x.is_some()) {
                        ctx.probe("restored_object_carries_memo");
                    }
                    objs[o].tx = restored;
                    if let Some(m2) = edited_model {
                        objs[o].model = m2;
                        objs[o].last_mut = "restart-json_edit".into();
                        ctx.probe("restart_with_edited_document");
                    }
                    // a wire parse is history-free by construction; a document may carry whatever its exporter put into it
                    if kind == "wire" {
                        objs[o].primed = false;
                    }
                    if kind == "wire_nonminimal" {
                        ctx.probe("restart_from_nonminimal_wire");
                        objs[o].primed = true;
                    }
                    touched_cache_ok = true;
                }
                _ => {
                    ctx.skip();
                    continue;
                }
            }

            if is_mutator {
                objs[o].last_mut = op.clone();
                if any_filled {
                    ctx.probe("slot_filled_then_mutated");
                    ctx.nontrivial = true;
                }
            }
            let _ = touched_cache_ok;
            if let Some(n) = new_obj {
                objs.push(n);
            }

            // ---- oracles over every live object
            let n_objs = objs.len();
            for k in 0..n_objs {
                let bytes = match guard(|| objs[k].tx.to_bytes()) {
                    Ok(Ok(b)) => b,
                    Ok(Err(_)) => {
                        ctx.probe("to_bytes_err");
                        continue;
                    }
                    Err(p) => {
                        if ctx.violate("panic", format!("panic@{}#to_bytes", site_file(&p.site)), format!("to_bytes panicked at {}: {}", p.site, p.msg)) {
                            return;
                        }
                        continue;
                    }
                };
                let slots = slots_of(&objs[k].tx);
                if k != o {
                    // O4 isolation: nothing about an object that was not addressed may change
                    // (memo slots of another object may change - e.g. a shared cache that is maintained correctly - as long
                    // as they stay right for that object's contents, which O2 checks below)
                    // aliasing between objects is not what C04 states (each object is judged against a fresh parse of its own
                    // current serialisation whatever made it current): recorded, and the model follows the library
                    if bytes != objs[k].snap_bytes {
                        ctx.probe("note:event_changed_serialisation_of_another_object");
                        objs[k].model_valid = false;
                    }
                }
                if k == o {
                    // O3 model
                    // where a mutator puts its argument and what the wire format is are other properties' statements (C01/C02);
                    // here the model only steers generation, so a disagreement is recorded and the object judged on as before
                    if objs[k].model_valid && bytes != objs[k].model.serialise() {
                        ctx.probe("note:serialisation_differs_from_harness_model");
                        objs[k].model_valid = false;
                    }
                    if !is_mutator && op != "restart" && bytes != objs[k].snap_bytes {
                        ctx.probe("note:non_mutating_call_changed_serialisation");
                    }
                    if op == "read" && slots != objs[k].snap_slots {
                        // a read-only call may warm the memo (O2 judges what it put there)
                        ctx.probe("read_only_call_touched_memo");
                    }
                }
                // behavioural probe that needs no hook: right after a mutator on an object that has seen a FORKID sighash, a clone
                // of it (clones carry whatever memo there is) is asked for every FORKID flag and compared with a fresh parse
                if k == o && is_mutator && objs[k].primed {
                    ctx.probe("clone_probed_after_mutator");
                    let mut twin = match guard(|| objs[k].tx.clone()) {
                        Ok(t) => t,
                        Err(_) => continue,
                    };
                    if let Ok(Some(what)) = guard(|| behaviour_differs(&mut twin, &bytes)) {
                        let lm = objs[k].last_mut.clone();
                        if ctx.violate("stale", format!("stale-memo-honoured after {}", lm), format!("right after `{}` a clone of object {} answers {} differently from a freshly parsed copy of the same serialisation", op, k, what)) {
                            return;
                        }
                    }
                }
                // O2 slot invariant: every filled slot equals what a history-free object computes
                if slots.iter().any(|s| s.is_some()) {
                    if objs[k].expect.is_none() || objs[k].snap_bytes != bytes {
                        objs[k].expect = match guard(|| expected_slots(&bytes)) {
                            Ok(e) => e,
                            Err(_) => None,
                        };
                    }
                    if let Some(exp) = objs[k].expect.clone() {
                        for j in 0..3 {
                            if let Some(s) = &slots[j] {
                                if !exp[j].is_empty() && *s != exp[j] {
                                    // the hook only points at where to look; the verdict is behavioural. A memo that is stale but
                                    // never honoured (dirty flag, generation counter) is a correct implementation.
                                    let lm = objs[k].last_mut.clone();
                                    let mut twin = objs[k].tx.clone();
                                    let shown = match guard(|| behaviour_differs(&mut twin, &bytes)) {
                                        Ok(Some(w)) => Some(format!("{} on a clone", w)),
                                        _ => match guard(|| behaviour_differs(&mut objs[k].tx, &bytes)) {
                                            Ok(w) => w,
                                            Err(_) => None,
                                        },
                                    };
                                    match shown {
                                        Some(what) => {
                                            if ctx.violate(
                                                "stale",
                                                format!("stale-slot:{} after {}", SLOT_NAMES[j], lm),
                                                format!("memo slot {} of object {} holds {} where a freshly parsed copy computes {} (last mutator `{}`, event `{}`), and the stale value is honoured: {} differs from the freshly parsed copy", SLOT_NAMES[j], k, hx(s), hx(&exp[j]), lm, op, what),
                                            ) {
                                                return;
                                            }
                                        }
                                        None => ctx.probe("slot_differs_from_fresh_but_is_never_honoured"),
                                    }
                                    break;
                                }
                            }
                        }
                    } else {
                        ctx.probe("expected_slots_unavailable");
                    }
                } else if objs[k].snap_bytes != bytes {
                    objs[k].expect = None;
                }
                let filled: u64 = slots.iter().enumerate().map(|(j, s)| if s.is_some() { 1u64 << j } else { 0 }).sum();
                if k == o {
                    let bucket = |n: usize| -> u64 {
                        match n {
                            0 => 0,
                            1 => 1,
                            2..=3 => 2,
                            _ => 3,
                        }
                    };
                    let lm = crate::rng::fnv1a(objs[k].last_mut.as_bytes());
                    ctx.state(&[bucket(objs[k].model.ins.len()), bucket(objs[k].model.outs.len()), filled, lm, objs[k].depth as u64]);
                    ctx.probe(match filled {
                        0 => "slots_none",
                        1 => "slots_I",
                        4 => "slots_O",
                        5 => "slots_IO",
                        3 => "slots_IS",
                        7 => "slots_ISO",
                        _ => "slots_other",
                    });
                }
                objs[k].snap_bytes = bytes;
                objs[k].snap_slots = slots;
            }
            ctx.trace(|| format!("#{} {} -> objects={} slots(obj {})={:?}", seq, ev, objs.len(), o, objs[o].snap_slots.iter().map(|s| s.is_some()).collect::<Vec<_>>()));
        }
    }

    fn shrink_event(&self, ev: &Event) -> Vec<Event> {
        let mut out = vec![];
        let simple_script = "51";
        let mut push = |e: Event| out.push(e);
        if let Some(t) = ev.get("txin") {
            let mut e = ev.clone();
            e["txin"] = json!({"txid": "11".repeat(32), "vout": 0, "script": "", "seq": t.get("seq").cloned().unwrap_or(json!(0))});
            push(e);
            let mut e = ev.clone();
            e["txin"] = json!({"txid": "22".repeat(32), "vout": 1, "script": "", "seq": 0});
            push(e);
        }
        if ev.get("txout").is_some() {
            let mut e = ev.clone();
            e["txout"] = json!({"value": "1", "script": simple_script});
            push(e);
            let mut e = ev.clone();
            e["txout"] = json!({"value": "2", "script": ""});
            push(e);
        }
        if ev.get("txins").is_some() {
            let mut e = ev.clone();
            e["txins"] = json!([{"txid": "11".repeat(32), "vout": 0, "script": "", "seq": 0}]);
            push(e);
        }
        if ev.get("txouts").is_some() {
            let mut e = ev.clone();
            e["txouts"] = json!([{"value": "1", "script": simple_script}]);
            push(e);
        }
        if ev.get("sub").is_some() {
            let mut e = ev.clone();
            e["sub"] = json!("");
            e["value"] = json!("0");
            push(e);
        }
        if jstr(ev, "op") == "sign" || jstr(ev, "op") == "sign_with_k" {
            let mut e = ev.clone();
            e["op"] = json!("sighash");
            push(e);
        }
        if jstr(ev, "op") == "restart" && jstr(ev, "kind") != "wire" {
            let mut e = ev.clone();
            e["kind"] = json!("wire");
            push(e);
        }
        if ev.get("idx").is_some() && jusize(ev, "idx") != 0 {
            let mut e = ev.clone();
            e["idx"] = json!(0);
            push(e);
        }
        out
    }
}
