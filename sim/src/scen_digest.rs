//! C13 — scenario `digest-stream`: the streaming digest adapters (Sha256r, Sha256d, Hash160) are
//! long-lived mutable sinks; whoever feeds them chooses the fragmentation. The scheduler cuts a
//! byte stream into update / io::Write::write / write_all calls (dribble, block-aligned, around the
//! padding boundaries, zero-length fragments), forks sinks mid-stream, resets them, and finishes them
//! four different ways; one-shot hash / HMAC / PBKDF2 entry points ride along as degenerate
//! one-fragment schedules checked against textbook compositions of the primitive hash crates.

use crate::core::*;
use crate::rng::Rng;
use bsv::hash::hash160_digest::Hash160;
use bsv::hash::sha256d_digest::Sha256d;
use bsv::{Hash, ReversibleDigest, Sha256r, KDF, PBKDF2Hashes};
use digest::{Digest, FixedOutput, Reset, Update};
use hmac::{Hmac, Mac, NewMac};
use serde_json::{json, Value};

pub struct DigestStream;

// ---------------------------------------------------------------------------------------------
// reference side: primitive hash crates + textbook HMAC / PBKDF2

fn sha256(d: &[u8]) -> Vec<u8> {
    sha2::Sha256::digest(d).to_vec()
}
fn sha512(d: &[u8]) -> Vec<u8> {
    sha2::Sha512::digest(d).to_vec()
}
fn sha1(d: &[u8]) -> Vec<u8> {
    sha1::Sha1::digest(d).to_vec()
}
fn ripemd(d: &[u8]) -> Vec<u8> {
    ripemd160::Ripemd160::digest(d).to_vec()
}
fn sha256d(d: &[u8]) -> Vec<u8> {
    sha256(&sha256(d))
}
fn hash160(d: &[u8]) -> Vec<u8> {
    ripemd(&sha256(d))
}

pub fn ref_hash(name: &str, d: &[u8]) -> Vec<u8> {
    match name {
        "sha256" | "sha256r" => sha256(d),
        "sha256d" => sha256d(d),
        "hash160" => hash160(d),
        "sha512" => sha512(d),
        "sha1" => sha1(d),
        "ripemd160" => ripemd(d),
        _ => vec![],
    }
}
fn block_size(name: &str) -> usize {
    if name == "sha512" {
        128
    } else {
        64
    }
}

/// RFC 2104, written out.
pub fn ref_hmac(name: &str, key: &[u8], msg: &[u8]) -> Vec<u8> {
    let b = block_size(name);
    let mut k = if key.len() > b { ref_hash(name, key) } else { key.to_vec() };
    k.resize(b, 0);
    let mut inner: Vec<u8> = k.iter().map(|x| x ^ 0x36).collect();
    inner.extend_from_slice(msg);
    let ih = ref_hash(name, &inner);
    let mut outer: Vec<u8> = k.iter().map(|x| x ^ 0x5c).collect();
    outer.extend_from_slice(&ih);
    ref_hash(name, &outer)
}

/// RFC 8018 PBKDF2, written out.
pub fn ref_pbkdf2(name: &str, pw: &[u8], salt: &[u8], rounds: u32, len: usize) -> Vec<u8> {
    let mut out = vec![];
    let mut block = 1u32;
    while out.len() < len {
        let mut s = salt.to_vec();
        s.extend_from_slice(&block.to_be_bytes());
        let mut u = ref_hmac(name, pw, &s);
        let mut t = u.clone();
        for _ in 1..rounds {
            u = ref_hmac(name, pw, &u);
            for (a, b) in t.iter_mut().zip(u.iter()) {
                *a ^= b;
            }
        }
        out.extend(t);
        block += 1;
    }
    out.truncate(len);
    out
}

// ---------------------------------------------------------------------------------------------
// sinks

enum Engine {
    R(Sha256r),
    D(Sha256d),
    H(Hash160),
    MacR(Hmac<Sha256r>),
    MacD(Hmac<Sha256d>),
    MacH(Hmac<Hash160>),
}

struct Sink {
    kind: String,
    eng: Engine,
    /// bytes accepted since the last reset
    model: Vec<u8>,
    reversed: bool,
    /// the statement fixes what the reversed mode outputs, not whether the mode survives reset / a *_reset finisher of a reversed
    /// instance nor what a second reverse() does: from then on either byte order is accepted for this instance and its clones
    either: bool,
    key: Vec<u8>,
    fragments: u32,
}

impl Sink {
    fn new(kind: &str, key: &[u8]) -> Option<Sink> {
        let eng = match kind {
            "sha256r" => Engine::R(Sha256r::default()),
            "sha256d" => Engine::D(Sha256d::default()),
            "hash160" => Engine::H(Hash160::default()),
            "hmac-sha256r" => Engine::MacR(Hmac::<Sha256r>::new_from_slice(key).ok()?),
            "hmac-sha256d" => Engine::MacD(Hmac::<Sha256d>::new_from_slice(key).ok()?),
            "hmac-hash160" => Engine::MacH(Hmac::<Hash160>::new_from_slice(key).ok()?),
            _ => return None,
        };
        Some(Sink { kind: kind.to_string(), eng, model: vec![], reversed: false, either: false, key: key.to_vec(), fragments: 0 })
    }
    fn is_mac(&self) -> bool {
        self.kind.starts_with("hmac-")
    }
    fn base(&self) -> &str {
        self.kind.strip_prefix("hmac-").unwrap_or(&self.kind)
    }
    fn expected(&self) -> Vec<u8> {
        let mut h = if self.is_mac() { ref_hmac(self.base(), &self.key, &self.model) } else { ref_hash(self.base(), &self.model) };
        if self.reversed {
            h.reverse();
        }
        h
    }
    fn fork(&self) -> Sink {
        let eng = match &self.eng {
            Engine::R(e) => Engine::R(e.clone()),
            Engine::D(e) => Engine::D(e.clone()),
            Engine::H(e) => Engine::H(e.clone()),
            Engine::MacR(e) => Engine::MacR(e.clone()),
            Engine::MacD(e) => Engine::MacD(e.clone()),
            Engine::MacH(e) => Engine::MacH(e.clone()),
        };
        Sink { kind: self.kind.clone(), eng, model: self.model.clone(), reversed: self.reversed, either: self.either, key: self.key.clone(), fragments: self.fragments }
    }
}

const KINDS: [&str; 6] = ["sha256r", "sha256d", "hash160", "hmac-sha256r", "hmac-sha256d", "hmac-hash160"];
const LENS: [usize; 24] = [0, 1, 2, 31, 32, 54, 55, 56, 57, 63, 64, 65, 110, 111, 112, 113, 119, 120, 127, 128, 129, 191, 192, 256];

impl DigestStream {
    /// Lengths for the write pattern of a caller that fills a staging buffer with small writes and then hands over a bulk write:
    /// small pieces (each below one block) that sum to exactly one or two blocks (or one byte off), then one piece whose size
    /// sits at a power-of-two threshold (or one byte off), then a short tail; possibly twice.
    fn stage_then_bulk_lengths(rng: &mut Rng) -> Vec<usize> {
        let mut lens = vec![];
        for _ in 0..rng.range(1, 2) {
            let target = (64 * rng.range(1, 2) as i64 + *rng.pick(&[0i64, 0, 0, -1, 1])) as usize;
            let mut left = target;
            while left > 0 {
                let n = (rng.range(1, 63) as usize).min(left);
                lens.push(n);
                left -= n;
            }
            let bulk = (*rng.pick(&[64i64, 128, 256, 512, 1024, 1024, 2048, 4096, 8192]) + *rng.pick(&[0i64, 0, 0, -1, 1])) as usize;
            lens.push(bulk);
            if rng.chance(1, 2) {
                lens.push(rng.range(0, 70) as usize);
            }
        }
        lens
    }

    fn fragments(rng: &mut Rng, data: &[u8]) -> (Vec<Vec<u8>>, &'static str) {
        let mode = rng.below(7);
        let mut out: Vec<Vec<u8>> = vec![];
        let name;
        match mode {
            0 => {
                name = "frag:dribble1";
                for b in data {
                    out.push(vec![*b]);
                }
            }
            1 => {
                name = "frag:block-aligned";
                let bs = *rng.pick(&[64usize, 128, 32]);
                for c in data.chunks(bs) {
                    out.push(c.to_vec());
                }
            }
            2 => {
                name = "frag:boundary";
                // cut right before / at / after a padding or block boundary
                let cut = *rng.pick(&[55usize, 56, 57, 63, 64, 65, 111, 112, 119, 120, 127, 128]);
                let c = cut.min(data.len());
                out.push(data[..c].to_vec());
                out.push(data[c..].to_vec());
            }
            3 => {
                name = "frag:random";
                let mut p = 0;
                while p < data.len() {
                    let n = (rng.range(1, 100) as usize).min(data.len() - p);
                    out.push(data[p..p + n].to_vec());
                    p += n;
                }
            }
            4 => {
                name = "frag:zero-length";
                let mut p = 0;
                out.push(vec![]);
                while p < data.len() {
                    let n = (rng.range(1, 70) as usize).min(data.len() - p);
                    out.push(data[p..p + n].to_vec());
                    if rng.chance(1, 2) {
                        out.push(vec![]);
                    }
                    p += n;
                }
            }
            5 => {
                name = "frag:block-edge";
                // pieces that end exactly on, one before and one after a block edge: 63,1,64 / 64,64 / 1,63,65 ...
                let pat: &[usize] = *rng.pick(&[&[63usize, 1, 64][..], &[64, 64][..], &[1, 63, 65][..], &[55, 1, 8][..], &[56, 8][..], &[127, 1, 128][..], &[65, 63][..]]);
                let mut p = 0;
                for n in pat.iter().cycle() {
                    if p >= data.len() {
                        break;
                    }
                    let n = (*n).min(data.len() - p);
                    out.push(data[p..p + n].to_vec());
                    p += n;
                }
            }
            _ => {
                name = "frag:one-shot";
                out.push(data.to_vec());
            }
        }
        (out, name)
    }
}

impl Scenario for DigestStream {
    fn info(&self) -> ScenarioInfo {
        ScenarioInfo {
            property: "C13",
            name: "digest-stream",
            rule: "one case = one seeded feeding schedule over 1-3 live sinks of kind Sha256r / Sha256d / Hash160 / Hmac<each>: a message (lengths biased to every padding and block boundary, up to 1 KiB quick / 64 KiB thorough, rarely 65 535 - 131 073 bytes) is cut by one of eight write patterns (1-byte dribble, block-aligned, cut at a padding/block boundary, random, zero-length fragments interleaved, pieces ending on/before/after block edges, small writes filling exactly one or two blocks followed by a bulk write, one-shot) into digest::Update::update / digest::Digest::update / digest::Digest::chain calls (the adapters' io::Write impl is compiled out: digest::impl_write! is gated on a `std` feature bsv does not define), with clone-forks, reverse(), reset and the finishing calls (FixedOutput::finalize_fixed / finalize_fixed_reset / finalize_into_reset, Digest::finalize / finalize_reset, Mac::finalize / finalize_reset) placed mid-stream, plus one-shot Hash::* / Hash::*_hmac / KDF::pbkdf2 (1 - 65 537 rounds, outputs up to 257 hash blocks, salt given or drawn from the scripted entropy seam) / ExtendedPrivateKey::from_mnemonic calls; non-trivial = more than one fragment reached a sink or a fork/reset happened while bytes were in flight; distinct = distinct fingerprint of the (sink, call kind, fragment-length class) sequence",
            abstract_state: "(sink kind, bytes-in-flight bucket modulo the block size, reversed?, forked?, call kind)",
            real: &["bsv::Sha256r / Sha256d / Hash160 through digest::{Update, Reset, FixedOutput, FixedOutputDirty}, Clone and ReversibleDigest", "hmac::Hmac over the three adapters (the composition Hash::*_hmac and RFC 6979 use)", "bsv::Hash::{sha_1, sha_256, sha_256d, sha_512, ripemd_160, hash_160} and their *_hmac variants", "bsv::KDF::pbkdf2 (SHA-1/256/512)"],
            stub: &["model = bytes accepted since the last reset, hashed one-shot by sha2 / sha-1 / ripemd160 directly", "textbook RFC 2104 HMAC and RFC 8018 PBKDF2 over those primitives (reference-model oracles without a schedule dimension of their own)"],
            assumptions: &["the primitive crates sha2, sha-1 and ripemd160 are the independent reference for the published algorithms", "whether the reversed mode survives reset / a *_reset finisher, and whether a second reverse() sets or toggles, is not fixed by the statement: after either, both byte orders are accepted for that instance (the first finish of a reversed instance, and every finish of a never-reversed one, is judged exactly)"],
            required_probes: &["frag:dribble1", "frag:block-aligned", "frag:boundary", "frag:random", "frag:zero-length", "frag:block-edge", "frag:stage-then-bulk", "via_digest_trait", "fork_midstream", "reset_midstream", "finalize_reset_then_second_message", "reversed_finalize", "oneshot", "hmac_key_longer_than_block", "pbkdf2_multi_block"],
            quick_runs: 100000,
            thorough_runs: 5000000,
            rlimit_as: 4 << 30,
            alloc_abort_is_violation: true,
        }
    }

    fn generate(&self, rng: &mut Rng, tier: Tier, _index: u64) -> Plan {
        let mut events: Vec<Event> = vec![];
        let n_msgs = rng.range(1, 3);
        let max_len = if tier == Tier::Thorough && rng.chance(1, 20) { 65536 } else { 1024 };
        let mut n_sinks = 0u64;
        for _ in 0..n_msgs {
            match rng.below(10) {
                0 | 1 => {
                    // one-shot entry points
                    let n = if rng.chance(2, 3) { *rng.pick(&LENS) } else { rng.usize(max_len.min(2048)) };
                    let klen = *rng.pick(&[0usize, 1, 20, 32, 63, 64, 65, 127, 128, 129, 200]);
                    events.push(json!({"op": "oneshot", "data": hx(&rng.bytes(n)), "key": hx(&rng.bytes(klen))}));
                }
                2 => {
                    let algo = *rng.pick(&["sha1", "sha256", "sha512"]);
                    // seed derivation from a mnemonic: PBKDF2-SHA512 with 2048 rounds, judged through the extended key it yields
                    if rng.chance(1, 60) {
                        let ml = rng.range(0, 160) as usize;
                        let pl = rng.range(0, 40) as usize;
                        let pass = if rng.chance(1, 2) { Some(hx(&rng.bytes(pl))) } else { None };
                        events.push(json!({"op": "mnemonic", "mnemonic": hx(&rng.bytes(ml)), "passphrase": pass}));
                        continue;
                    }
                    let rounds = if rng.chance(1, 150) { *rng.pick(&[255u64, 256, 257, 65_535, 65_536, 65_537]) } else if rng.chance(1, 12) { rng.range(1, 300) } else { *rng.pick(&[1u64, 2, 3, 7, 64]) };
                    let random_salt = rng.chance(1, 10);
                    let len = *rng.pick(&[1u64, 1, 19, 20, 21, 31, 32, 33, 39, 40, 41, 60, 63, 64, 65, 96, 100, 127, 128, 129, 192, 200]);
                    // output lengths that need 255 / 256 / 257 blocks of the hash (a block counter that is one byte wide wraps there)
                    let (rounds, len) = if rng.chance(1, 80) {
                        let hl: u64 = match algo {
                            "sha1" => 20,
                            "sha512" => 64,
                            _ => 32,
                        };
                        (1, hl * *rng.pick(&[255u64, 256, 256, 257]) + *rng.pick(&[0u64, 0, 1]))
                    } else {
                        (rounds, len)
                    };
                    let pl = if rng.chance(1, 3) { *rng.pick(&[0usize, 1, 63, 64, 65, 127, 128, 129]) } else { rng.range(0, 140) as usize };
                    let sl = rng.range(0, 140) as usize;
                    events.push(json!({"op": "pbkdf2", "algo": algo, "pw": hx(&rng.bytes(pl)), "salt": hx(&rng.bytes(sl)), "rounds": rounds, "len": len, "random_salt": random_salt, "entropy": hx(&rng.bytes(if random_salt { 64 } else { 0 }))}));
                }
                _ => {
                    if n_sinks >= 3 {
                        continue;
                    }
                    let kind = *rng.pick(&KINDS);
                    let klen = *rng.pick(&[0usize, 1, 32, 63, 64, 65, 100]);
                    let s = n_sinks;
                    n_sinks += 1;
                    events.push(json!({"op": "new", "kind": kind, "key": hx(&rng.bytes(klen)), "born_reversed": kind == "hash160" && rng.chance(1, 6)}));
                    let staged = rng.chance(1, 10);
                    let stage_lens = if staged { Self::stage_then_bulk_lengths(rng) } else { vec![] };
                    // rarely a message around the 16-bit boundary or well beyond it (one per few hundred sinks: they are big)
                    let n = if staged { stage_lens.iter().sum() } else if rng.chance(1, 300) { *rng.pick(&[65_535usize, 65_536, 65_537, 70_000, 131_073]) } else if rng.chance(2, 3) { *rng.pick(&LENS) } else { rng.usize(max_len) };
                    let data = rng.bytes(n);
                    let (frags, fname) = if staged {
                        let mut out = vec![];
                        let mut p = 0;
                        for l in &stage_lens {
                            out.push(data[p..p + l].to_vec());
                            p += l;
                        }
                        (out, "frag:stage-then-bulk")
                    } else {
                        Self::fragments(rng, &data)
                    };
                    let reversed_at = if !kind.starts_with("hmac-") && rng.chance(1, 4) { Some(rng.usize(frags.len() + 1)) } else { None };
                    let mut reversed = false;
                    for (i, f) in frags.iter().enumerate() {
                        if Some(i) == reversed_at {
                            events.push(json!({"op": "reverse", "sink": s}));
                            reversed = true;
                        } else if reversed && rng.chance(1, 30) {
                            events.push(json!({"op": "reverse", "sink": s}));
                        }
                        let call = *rng.pick(&["update", "update", "write", "write_all"]);
                        events.push(json!({"op": call, "sink": s, "data": hx(f), "policy": fname}));
                        if rng.chance(1, 12) {
                            events.push(json!({"op": "flush", "sink": s}));
                        }
                        if rng.chance(1, 10) && n_sinks < 3 {
                            events.push(json!({"op": "fork", "sink": s}));
                            n_sinks += 1;
                        }
                        if rng.chance(1, 25) {
                            events.push(json!({"op": "reset", "sink": s}));
                        }
                        if rng.chance(1, 25) {
                            events.push(json!({"op": "finalize_reset", "sink": s, "how": *rng.pick(&["fixed_reset", "into_reset", "digest_reset"])}));
                        }
                    }
                    if Some(frags.len()) == reversed_at {
                        events.push(json!({"op": "reverse", "sink": s}));
                        reversed = true;
                    }
                    let _ = reversed;
                    if rng.chance(1, 3) {
                        // finish, then a second message through the same sink
                        events.push(json!({"op": "finalize_reset", "sink": s, "how": *rng.pick(&["fixed_reset", "into_reset", "digest_reset"])}));
                        let m = rng.range(0, 130) as usize;
                        let d2 = rng.bytes(m);
                        let (fr2, fname2) = Self::fragments(rng, &d2);
                        for f in fr2 {
                            events.push(json!({"op": "update", "sink": s, "data": hx(&f), "policy": fname2}));
                        }
                    }
                    if rng.chance(1, 20) {
                        // reset directly before finishing: the digest of the empty message
                        events.push(json!({"op": "reset", "sink": s}));
                    }
                    events.push(json!({"op": "finalize", "sink": s, "how": *rng.pick(&["fixed", "digest"])}));
                }
            }
        }
        // whatever is still alive is finished at the end of the run
        Plan { config: json!({"messages": n_msgs, "max_len": max_len}), events }
    }

    fn execute(&self, plan: &Plan, ctx: &mut RunCtx) {
        let mut sinks: Vec<Option<Sink>> = vec![];
        macro_rules! check {
            ($sink:expr, $got:expr, $how:expr) => {{
                let want = $sink.expected();
                let got: Vec<u8> = $got;
                ctx.observe(&got);
                let other: Vec<u8> = want.iter().rev().cloned().collect();
                if $sink.either {
                    ctx.probe(if got == want { "mode_kept_after_reset_or_second_reverse" } else { "mode_dropped_after_reset_or_second_reverse" });
                }
                if got != want && !($sink.either && got == other) {
                    let sig = format!("digest-mismatch:{} via {}{}", $sink.kind, $how, if $sink.reversed { " reversed" } else { "" });
                    if ctx.violate("mismatch", sig, format!("{} over {} bytes fed in {} fragments: got {} want {}", $sink.kind, $sink.model.len(), $sink.fragments, hx(&got), hx(&want))) {
                        return;
                    }
                }
            }};
        }
        for (seq, ev) in plan.events.iter().enumerate() {
            if ctx.stopped() {
                return;
            }
            ctx.seq = seq;
            let op = jstr(ev, "op").to_string();
            ctx.crumb(&op);
            match op.as_str() {
                "new" => {
                    match guard(|| Sink::new(jstr(ev, "kind"), &jhex(ev, "key"))) {
                        Ok(Some(mut s)) => {
                            ctx.event(seq, "new", jstr(ev, "kind"));
                            if jbool(ev, "born_reversed") && s.kind == "hash160" {
                                // the constructor that starts in reversed-output mode
                                if let Ok(h) = guard(|| Hash160::new(true)) {
                                    s.eng = Engine::H(h);
                                    s.reversed = true;
                                    ctx.probe("hash160_constructed_reversed");
                                }
                            }
                            sinks.push(Some(s));
                        }
                        Ok(None) => ctx.skip(),
                        Err(p) => {
                            if ctx.violate("panic", format!("panic@{}#new {}", site_file(&p.site), jstr(ev, "kind")), p.msg) {
                                return;
                            }
                        }
                    };
                }
                "oneshot" => {
                    ctx.event(seq, "oneshot", "");
                    ctx.probe("oneshot");
                    let d = jhex(ev, "data");
                    let k = jhex(ev, "key");
                    if k.len() > 64 {
                        ctx.probe("hmac_key_longer_than_block");
                    }
                    let fns: [(&str, fn(&[u8]) -> Hash); 6] = [("sha1", Hash::sha_1), ("sha256", Hash::sha_256), ("sha256d", Hash::sha_256d), ("sha512", Hash::sha_512), ("ripemd160", Hash::ripemd_160), ("hash160", Hash::hash_160)];
                    for (name, f) in fns.iter() {
                        match guard(|| f(&d).to_bytes()) {
                            Ok(got) => {
                                if got != ref_hash(name, &d) {
                                    if ctx.violate("mismatch", format!("oneshot-mismatch:{}", name), format!("Hash::{} of {} bytes: got {} want {}", name, d.len(), hx(&got), hx(&ref_hash(name, &d)))) {
                                        return;
                                    }
                                }
                            }
                            Err(p) => {
                                if ctx.violate("panic", format!("panic@{}#Hash::{}", site_file(&p.site), name), p.msg) {
                                    return;
                                }
                            }
                        }
                    }
                    let macs: [(&str, fn(&[u8], &[u8]) -> Hash); 6] = [("sha1", Hash::sha_1_hmac), ("sha256", Hash::sha_256_hmac), ("sha256d", Hash::sha_256d_hmac), ("sha512", Hash::sha_512_hmac), ("ripemd160", Hash::ripemd_160_hmac), ("hash160", Hash::hash_160_hmac)];
                    for (name, f) in macs.iter() {
                        match guard(|| f(&d, &k).to_bytes()) {
                            Ok(got) => {
                                let want = ref_hmac(name, &k, &d);
                                if got != want {
                                    if ctx.violate("mismatch", format!("oneshot-hmac-mismatch:{}", name), format!("Hash::{}_hmac msg {} bytes key {} bytes: got {} want {}", name, d.len(), k.len(), hx(&got), hx(&want))) {
                                        return;
                                    }
                                }
                            }
                            Err(p) => {
                                if ctx.violate("panic", format!("panic@{}#Hash::{}_hmac", site_file(&p.site), name), p.msg) {
                                    return;
                                }
                            }
                        }
                    }
                }
                "pbkdf2" => {
                    ctx.event(seq, "pbkdf2", jstr(ev, "algo"));
                    let (algo, name, hl) = match jstr(ev, "algo") {
                        "sha1" => (PBKDF2Hashes::SHA1, "sha1", 20),
                        "sha512" => (PBKDF2Hashes::SHA512, "sha512", 64),
                        _ => (PBKDF2Hashes::SHA256, "sha256", 32),
                    };
                    let (pw, salt, rounds, len) = (jhex(ev, "pw"), jhex(ev, "salt"), ju64(ev, "rounds").max(1) as u32, jusize(ev, "len").clamp(1, 20_000));
                    if len > hl {
                        ctx.probe("pbkdf2_multi_block");
                    }
                    let random_salt = jbool(ev, "random_salt");
                    if random_salt {
                        // salt drawn by the library from the (simulated) system source; whatever it drew, the output must be PBKDF2 of it
                        ctx.probe("pbkdf2_library_drawn_salt");
                        ctx.fault("entropy-script");
                        bsv::verif_hooks::install_entropy(&jhex(ev, "entropy"), 0x5a17);
                    }
                    let r = guard(|| KDF::pbkdf2(&pw, if random_salt { None } else { Some(salt.clone()) }, algo, rounds, len));
                    if random_salt {
                        let _ = bsv::verif_hooks::uninstall_entropy();
                    }
                    match r {
                        Ok(k) => {
                            let got = k.get_hash().to_bytes();
                            // the value object's accessors must agree with each other: the hex form is the hex of the bytes
                            if let Ok(hexed) = guard(|| k.get_hash().to_hex()) {
                                if hexed.to_ascii_lowercase() != hx(&got) {
                                    if ctx.violate("mismatch", format!("hash-accessors-disagree:pbkdf2-{}", name), format!("to_hex() of a {}-byte PBKDF2 result is {} but to_bytes() is {}", got.len(), hexed, hx(&got))) {
                                        return;
                                    }
                                }
                            }
                            let salt = if random_salt { k.get_salt() } else { salt.clone() };
                            let want = ref_pbkdf2(name, &pw, &salt, rounds, len);
                            if got != want || k.get_salt() != salt {
                                if ctx.violate("mismatch", format!("pbkdf2-mismatch:{}", name), format!("pbkdf2-{} rounds {} len {}: got {} want {}", name, rounds, len, hx(&got), hx(&want))) {
                                    return;
                                }
                            }
                        }
                        Err(p) => {
                            if ctx.violate("panic", format!("panic@{}#pbkdf2-{}", site_file(&p.site), name), p.msg) {
                                return;
                            }
                        }
                    }
                }
                "mnemonic" => {
                    ctx.event(seq, "mnemonic", "");
                    ctx.probe("mnemonic_seed_2048_rounds");
                    let mn = jhex(ev, "mnemonic");
                    let pass: Option<Vec<u8>> = ev.get("passphrase").and_then(|p| p.as_str()).and_then(|h| hex::decode(h).ok());
                    // the salt convention (passphrase, or the word "mnemonic" when there is none) is the library's; what is judged is
                    // PBKDF2-HMAC-SHA512 x 2048 -> 64 bytes, then HMAC-SHA512 keyed "Bitcoin seed" split into key and chain code
                    // which salt is built from the passphrase is not C13's business (the shipped code uses the passphrase alone,
                    // BIP39 says "mnemonic" || passphrase): either is accepted, the derivation itself is judged
                    let salts: Vec<Vec<u8>> = match &pass {
                        None => vec![b"mnemonic".to_vec()],
                        Some(p) => vec![p.clone(), [b"mnemonic".as_slice(), p.as_slice()].concat()],
                    };
                    let wants: Vec<Vec<u8>> = salts.iter().map(|salt| ref_hmac("sha512", b"Bitcoin seed", &ref_pbkdf2("sha512", &mn, salt, 2048, 64))).collect();
                    let i = wants[0].clone();
                    let r = guard(|| bsv::ExtendedPrivateKey::from_mnemonic(&mn, pass.clone()).map(|x| (x.get_private_key().to_bytes(), x.get_chain_code())).map_err(|e| e.to_string()));
                    match r {
                        Ok(Ok((k, c))) => {
                            if !wants.iter().any(|w| k == w[..32] && c == w[32..]) {
                                if ctx.violate("mismatch", "mnemonic-seed-mismatch".into(), format!("from_mnemonic ({} byte mnemonic, passphrase {}) gives key {} chain code {}, the reference PBKDF2-SHA512/2048 + HMAC-SHA512 gives {} {}", mn.len(), if pass.is_some() { "given" } else { "absent" }, hx(&k), hx(&c), hx(&i[..32]), hx(&i[32..]))) {
                                    return;
                                }
                            }
                        }
                        Ok(Err(_)) => {
                            // the left half is not a valid secret (zero or >= n): probability 2^-127
                            ctx.probe("mnemonic_refused");
                        }
                        Err(p) => {
                            if ctx.violate("panic", format!("panic@{}#from_mnemonic", site_file(&p.site)), p.msg) {
                                return;
                            }
                        }
                    }
                }
                "update" | "write" | "write_all" | "flush" | "reset" | "reverse" | "fork" | "finalize" | "finalize_reset" => {
                    let i = jusize(ev, "sink");
                    if i >= sinks.len() || sinks[i].is_none() {
                        ctx.skip();
                        continue;
                    }
                    let data = jhex(ev, "data");
                    let cls = match data.len() {
                        0 => "0",
                        1 => "1",
                        2..=63 => "<64",
                        64 => "64",
                        _ => ">64",
                    };
                    ctx.event(seq, &op, cls);
                    if let Some(s) = sinks[i].as_ref() {
                        ctx.state(&[crate::rng::fnv1a(s.kind.as_bytes()), (s.model.len() % 64 / 8) as u64, s.reversed as u64, crate::rng::fnv1a(op.as_bytes())]);
                    }
                    if matches!(op.as_str(), "update" | "write" | "write_all") {
                        let pol = jstr(ev, "policy");
                        if !pol.is_empty() {
                            ctx.probe(pol);
                        }
                    }
                    match op.as_str() {
                        "update" | "write" | "write_all" => {
                            let s = sinks[i].as_mut().unwrap();
                            if !s.model.is_empty() || s.fragments > 0 {
                                ctx.nontrivial = true;
                            }
                            let is_mac = s.is_mac();
                            let res: Result<Result<usize, String>, PanicInfo> = guard(|| match (&mut s.eng, op.as_str()) {
                                (Engine::R(e), "update") => {
                                    Update::update(e, &data);
                                    Ok(data.len())
                                }
                                (Engine::D(e), "update") => {
                                    Update::update(e, &data);
                                    Ok(data.len())
                                }
                                (Engine::H(e), "update") => {
                                    Update::update(e, &data);
                                    Ok(data.len())
                                }
                                // digest::impl_write! is gated on a `std` feature the bsv crate does not define, so the
                                // adapters have no io::Write impl in any build; "write"/"write_all" events feed through
                                // digest::Digest::update / chain-style calls instead (second public feeding path)
                                (Engine::R(e), "write_all") => {
                                    // the builder-style call the signing path uses (get_hash_digest): consumes and returns the adapter
                                    *e = Digest::chain(e.clone(), &data);
                                    Ok(data.len())
                                }
                                (Engine::D(e), "write_all") => {
                                    *e = Digest::chain(e.clone(), &data);
                                    Ok(data.len())
                                }
                                (Engine::H(e), "write_all") => {
                                    *e = Digest::chain(e.clone(), &data);
                                    Ok(data.len())
                                }
                                (Engine::R(e), _) => {
                                    Digest::update(e, &data);
                                    Ok(data.len())
                                }
                                (Engine::D(e), _) => {
                                    Digest::update(e, &data);
                                    Ok(data.len())
                                }
                                (Engine::H(e), _) => {
                                    Digest::update(e, &data);
                                    Ok(data.len())
                                }
                                (Engine::MacR(e), _) => {
                                    Mac::update(e, &data);
                                    Ok(data.len())
                                }
                                (Engine::MacD(e), _) => {
                                    Mac::update(e, &data);
                                    Ok(data.len())
                                }
                                (Engine::MacH(e), _) => {
                                    Mac::update(e, &data);
                                    Ok(data.len())
                                }
                            });
                            if op != "update" && !is_mac {
                                ctx.probe("via_digest_trait");
                            }
                            match res {
                                Ok(Ok(n)) => {
                                    if n != data.len() {
                                        if ctx.violate("mismatch", format!("short-write:{}", s.kind), format!("io::Write::write accepted {} of {} bytes", n, data.len())) {
                                            return;
                                        }
                                    }
                                    s.model.extend_from_slice(&data[..n.min(data.len())]);
                                    s.fragments += 1;
                                }
                                Ok(Err(e)) => {
                                    if ctx.violate("mismatch", format!("write-error:{}", s.kind), format!("io::Write on an in-memory digest sink failed: {}", e)) {
                                        return;
                                    }
                                }
                                Err(p) => {
                                    if ctx.violate("panic", format!("panic@{}#{} {}", site_file(&p.site), op, s.kind), p.msg) {
                                        return;
                                    }
                                }
                            }
                            let pol = jstr(ev, "policy");
                            if !pol.is_empty() && pol != "frag:one-shot" {
                                ctx.fault(pol);
                            }
                        }
                        "flush" => {
                            let s = sinks[i].as_mut().unwrap();
                            // no io::Write on the adapters (see above): a flush is a zero-length update
                            let r = guard(|| match &mut s.eng {
                                Engine::R(e) => Update::update(e, &[] as &[u8]),
                                Engine::D(e) => Update::update(e, &[] as &[u8]),
                                Engine::H(e) => Update::update(e, &[] as &[u8]),
                                _ => {}
                            });
                            if let Err(p) = r {
                                if ctx.violate("panic", format!("panic@{}#zero-length update {}", site_file(&p.site), s.kind), p.msg) {
                                    return;
                                }
                            }
                        }
                        "reset" => {
                            let s = sinks[i].as_mut().unwrap();
                            if s.reversed {
                                ctx.probe("reset_of_reversed_instance");
                            }
                            if !s.model.is_empty() {
                                ctx.probe("reset_midstream");
                                ctx.fault("reset");
                            }
                            let r = guard(|| match &mut s.eng {
                                Engine::R(e) => Reset::reset(e),
                                Engine::D(e) => Reset::reset(e),
                                Engine::H(e) => Reset::reset(e),
                                Engine::MacR(e) => Mac::reset(e),
                                Engine::MacD(e) => Mac::reset(e),
                                Engine::MacH(e) => Mac::reset(e),
                            });
                            if let Err(p) = r {
                                if ctx.violate("panic", format!("panic@{}#reset {}", site_file(&p.site), s.kind), p.msg) {
                                    return;
                                }
                            }
                            if s.reversed {
                                s.either = true;
                            }
                            s.model.clear();
                            s.fragments = 0;
                        }
                        "reverse" => {
                            let s = sinks[i].as_mut().unwrap();
                            if s.is_mac() {
                                ctx.skip();
                                continue;
                            }
                            if s.reversed {
                                // reverse() of a reversed instance: "set" and "toggle" both satisfy the statement
                                ctx.probe("reverse_of_reversed");
                                s.either = true;
                            }
                            let kind = s.kind.clone();
                            let r = guard(|| match &s.eng {
                                Engine::R(e) => Some(Engine::R(e.reverse())),
                                Engine::D(e) => Some(Engine::D(e.reverse())),
                                Engine::H(e) => Some(Engine::H(e.reverse())),
                                _ => None,
                            });
                            match r {
                                Ok(Some(e)) => s.eng = e,
                                Ok(None) => {}
                                Err(p) => {
                                    if ctx.violate("panic", format!("panic@{}#reverse {}", site_file(&p.site), kind), p.msg) {
                                        return;
                                    }
                                }
                            }
                            s.reversed = true;
                        }
                        "fork" => {
                            if sinks.len() >= 4 {
                                ctx.skip();
                                continue;
                            }
                            let s = sinks[i].as_ref().unwrap();
                            if !s.model.is_empty() {
                                ctx.probe("fork_midstream");
                            }
                            ctx.fault("fork");
                            match guard(|| s.fork()) {
                                Ok(f) => sinks.push(Some(f)),
                                Err(p) => {
                                    if ctx.violate("panic", format!("panic@{}#clone", site_file(&p.site)), p.msg) {
                                        return;
                                    }
                                }
                            }
                        }
                        "finalize_reset" => {
                            let s = sinks[i].as_mut().unwrap();
                            if s.reversed {
                                ctx.probe("finalize_reset_of_reversed_instance");
                            }
                            let how = jstr(ev, "how").to_string();
                            let got = guard(|| match &mut s.eng {
                                Engine::R(e) if how == "digest_reset" => Digest::finalize_reset(e).to_vec(),
                                Engine::D(e) if how == "digest_reset" => Digest::finalize_reset(e).to_vec(),
                                Engine::H(e) if how == "digest_reset" => Digest::finalize_reset(e).to_vec(),
                                Engine::R(e) => {
                                    if how == "into_reset" {
                                        let mut out = Default::default();
                                        e.finalize_into_reset(&mut out);
                                        out.to_vec()
                                    } else {
                                        e.finalize_fixed_reset().to_vec()
                                    }
                                }
                                Engine::D(e) => {
                                    if how == "into_reset" {
                                        let mut out = Default::default();
                                        e.finalize_into_reset(&mut out);
                                        out.to_vec()
                                    } else {
                                        e.finalize_fixed_reset().to_vec()
                                    }
                                }
                                Engine::H(e) => {
                                    if how == "into_reset" {
                                        let mut out = Default::default();
                                        FixedOutput::finalize_into_reset(e, &mut out);
                                        out.to_vec()
                                    } else {
                                        FixedOutput::finalize_fixed_reset(e).to_vec()
                                    }
                                }
                                Engine::MacR(e) => e.finalize_reset().into_bytes().to_vec(),
                                Engine::MacD(e) => e.finalize_reset().into_bytes().to_vec(),
                                Engine::MacH(e) => e.finalize_reset().into_bytes().to_vec(),
                            });
                            match got {
                                Ok(g) => {
                                    check!(s, g, &format!("finalize_{}", how));
                                    if s.reversed {
                                        s.either = true;
                                    }
                                    s.model.clear();
                                    s.fragments = 0;
                                    ctx.probe("finalize_reset_then_second_message");
                                    ctx.nontrivial = true;
                                }
                                Err(p) => {
                                    if ctx.violate("panic", format!("panic@{}#finalize_reset {}", site_file(&p.site), s.kind), p.msg) {
                                        return;
                                    }
                                }
                            }
                        }
                        _ => {
                            // finalize: consumes the sink
                            let s = sinks[i].take().unwrap();
                            if s.reversed {
                                ctx.probe("reversed_finalize");
                            }
                            let want_holder = s.fork();
                            let via_digest = jstr(ev, "how") == "digest";
                            if via_digest {
                                ctx.probe("finalize_via_digest_trait");
                            }
                            let got = guard(move || match s.eng {
                                Engine::R(e) if via_digest => Digest::finalize(e).to_vec(),
                                Engine::D(e) if via_digest => Digest::finalize(e).to_vec(),
                                Engine::H(e) if via_digest => Digest::finalize(e).to_vec(),
                                Engine::R(e) => e.finalize_fixed().to_vec(),
                                Engine::D(e) => e.finalize_fixed().to_vec(),
                                Engine::H(e) => FixedOutput::finalize_fixed(e).to_vec(),
                                Engine::MacR(e) => e.finalize().into_bytes().to_vec(),
                                Engine::MacD(e) => e.finalize().into_bytes().to_vec(),
                                Engine::MacH(e) => e.finalize().into_bytes().to_vec(),
                            });
                            match got {
                                Ok(g) => {
                                    check!(want_holder, g, "finalize");
                                }
                                Err(p) => {
                                    if ctx.violate("panic", format!("panic@{}#finalize {}", site_file(&p.site), want_holder.kind), p.msg) {
                                        return;
                                    }
                                }
                            }
                        }
                    }
                }
                _ => ctx.skip(),
            }
        }
        // drain: every live sink must still produce the model's hash
        for s in sinks.into_iter().flatten() {
            let holder = s.fork();
            let got = guard(move || match s.eng {
                Engine::R(e) => e.finalize_fixed().to_vec(),
                Engine::D(e) => e.finalize_fixed().to_vec(),
                Engine::H(e) => FixedOutput::finalize_fixed(e).to_vec(),
                Engine::MacR(e) => e.finalize().into_bytes().to_vec(),
                Engine::MacD(e) => e.finalize().into_bytes().to_vec(),
                Engine::MacH(e) => e.finalize().into_bytes().to_vec(),
            });
            match got {
                Ok(g) => {
                    check!(holder, g, "finalize(drain)");
                }
                Err(p) => {
                    if ctx.violate("panic", format!("panic@{}#finalize {}", site_file(&p.site), holder.kind), p.msg) {
                        return;
                    }
                }
            }
        }
    }

    fn shrink_event(&self, ev: &Event) -> Vec<Event> {
        let mut out = vec![];
        for key in ["data", "key", "pw", "salt"] {
            if ev.get(key).is_some() {
                let d = jhex(ev, key);
                if !d.is_empty() {
                    let mut e = ev.clone();
                    e[key] = json!(hx(&d[..d.len() / 2]));
                    out.push(e);
                    let mut e = ev.clone();
                    e[key] = json!(hx(&vec![0u8; d.len()]));
                    out.push(e);
                }
            }
        }
        if matches!(jstr(ev, "op"), "write" | "write_all") {
            let mut e = ev.clone();
            e["op"] = json!("update");
            out.push(e);
        }
        let _ = Value::Null;
        out
    }
}
