//! Scenario registry.
use crate::core::Scenario;

pub fn scenario_by_name(name: &str) -> Option<Box<dyn Scenario>> {
    match name {
        "tx-history" | "C04" => Some(Box::new(crate::scen_txhist::TxHistory)),
        _ => None,
    }
}

pub const ALL: &[(&str, &str)] = &[("C04", "tx-history")];
