//! Parent/worker process machinery: sharding, death attribution, known findings, minimisation,
//! replay files, determinism self-check, evidence.

use crate::core::*;
use crate::rng::{run_seed, Rng};
use crate::scenarios::scenario_by_name;
use serde_json::{json, Value};
use std::collections::{BTreeMap, BTreeSet, HashMap, HashSet};
use std::fs;
use std::io::{BufRead, BufReader, BufWriter, Write};
use std::path::{Path, PathBuf};
use std::process::{Command, Stdio};
use std::time::Instant;

pub const DEFAULT_SEED: u64 = 0x62737631;
const FLUSH_EVERY: u64 = 64;

pub fn verif_root() -> PathBuf {
    PathBuf::from(std::env::var("VERIF_ROOT").unwrap_or_else(|_| "/verif".to_string()))
}

fn scratch_dir() -> PathBuf {
    let d = verif_root().join("sim/target/scratch").join(format!("{}", std::process::id()));
    fs::create_dir_all(&d).expect("scratch dir");
    d
}

pub fn harness_error(msg: &str) -> ! {
    eprintln!("HARNESS-ERROR: {}", msg);
    std::process::exit(2);
}

// ---------------------------------------------------------------------------------------------
// known findings

#[derive(Clone, Debug)]
pub struct Finding {
    pub property: String,
    pub signature: String,
    pub what: String,
    pub status: String,
    pub replay: Option<String>,
}

pub fn load_findings(property: &str) -> Vec<Finding> {
    let p = verif_root().join("known_findings.json");
    let text = match fs::read_to_string(&p) {
        Ok(t) => t,
        Err(_) => return vec![],
    };
    let v: Value = match serde_json::from_str(&text) {
        Ok(v) => v,
        Err(e) => harness_error(&format!("known_findings.json does not parse: {}", e)),
    };
    let mut out = vec![];
    for f in v.get("findings").and_then(|x| x.as_array()).cloned().unwrap_or_default() {
        if jstr(&f, "property") != property {
            continue;
        }
        out.push(Finding {
            property: property.to_string(),
            signature: jstr(&f, "signature").to_string(),
            what: jstr(&f, "what").to_string(),
            status: jstr(&f, "status").to_string(),
            replay: f.get("replay").and_then(|x| x.as_str()).map(|s| s.to_string()),
        });
    }
    out
}

// ---------------------------------------------------------------------------------------------
// worker side

pub struct WorkerArgs {
    pub scenario: String,
    pub seed: u64,
    pub tier: Tier,
    pub indices: Vec<u64>,
    pub out: PathBuf,
    pub crumb: Option<PathBuf>,
    pub known: BTreeSet<String>,
}

fn map_crumb(path: &Path) -> Option<*mut u8> {
    use std::os::unix::io::AsRawFd;
    let f = fs::OpenOptions::new().read(true).write(true).create(true).truncate(false).open(path).ok()?;
    f.set_len(CRUMB_SIZE as u64).ok()?;
    let p = unsafe { libc::mmap(std::ptr::null_mut(), CRUMB_SIZE, libc::PROT_READ | libc::PROT_WRITE, libc::MAP_SHARED, f.as_raw_fd(), 0) };
    if p == libc::MAP_FAILED {
        return None;
    }
    Some(p as *mut u8)
}

pub fn read_crumb(path: &Path) -> Option<(u64, u64, String)> {
    let b = fs::read(path).ok()?;
    if b.len() < 18 {
        return None;
    }
    let run = u64::from_le_bytes(b[0..8].try_into().ok()?);
    let seq = u64::from_le_bytes(b[8..16].try_into().ok()?);
    let n = u16::from_le_bytes(b[16..18].try_into().ok()?) as usize;
    let label = String::from_utf8_lossy(&b[18..(18 + n).min(b.len())]).to_string();
    Some((run, seq, label))
}

fn set_limits(rlimit_as: u64) {
    if rlimit_as > 0 {
        let lim = libc::rlimit { rlim_cur: rlimit_as, rlim_max: rlimit_as };
        unsafe {
            libc::setrlimit(libc::RLIMIT_AS, &lim);
        }
    }
    // no core dumps from expected aborts
    let lim = libc::rlimit { rlim_cur: 0, rlim_max: 0 };
    unsafe {
        libc::setrlimit(libc::RLIMIT_CORE, &lim);
    }
}

/// All scenario code runs on a thread with an explicit 8 MiB stack so that native-stack findings do
/// not depend on the caller's `ulimit -s`.
pub const SIM_STACK: usize = 8 << 20;

pub fn worker_main(args: WorkerArgs) {
    let h = std::thread::Builder::new().name("sim".into()).stack_size(SIM_STACK).spawn(move || worker_body(args)).unwrap_or_else(|e| harness_error(&format!("spawn sim thread: {}", e)));
    if h.join().is_err() {
        std::process::exit(101);
    }
}

fn worker_body(args: WorkerArgs) {
    let scen = scenario_by_name(&args.scenario).unwrap_or_else(|| harness_error("unknown scenario"));
    let info = scen.info();
    set_limits(info.rlimit_as);
    install_panic_hook();
    crate::faults::stdout_to_devnull();
    let crumb = args.crumb.as_ref().and_then(|p| map_crumb(p));
    let f = fs::OpenOptions::new().create(true).append(true).open(&args.out).unwrap_or_else(|e| harness_error(&format!("worker out: {}", e)));
    let mut w = BufWriter::with_capacity(1 << 16, f);

    let mut faults: BTreeMap<String, u64> = BTreeMap::new();
    let mut probes: BTreeMap<String, u64> = BTreeMap::new();
    let mut known_seen: BTreeMap<String, u64> = BTreeMap::new();
    let mut states: BTreeSet<u64> = BTreeSet::new();
    let mut fps: Vec<u64> = vec![];
    let mut events: u64 = 0;
    let mut skipped: u64 = 0;
    let mut pending: u64 = 0;

    let mut dump = |w: &mut BufWriter<fs::File>,
                    faults: &mut BTreeMap<String, u64>,
                    probes: &mut BTreeMap<String, u64>,
                    known_seen: &mut BTreeMap<String, u64>,
                    states: &mut BTreeSet<u64>,
                    fps: &mut Vec<u64>,
                    events: &mut u64,
                    skipped: &mut u64| {
        let s = json!({
            "faults": faults, "probes": probes, "known_seen": known_seen,
            "states": states.iter().map(|x| format!("{:x}", x)).collect::<Vec<_>>(),
            "fps": fps.iter().map(|x| format!("{:x}", x)).collect::<Vec<_>>(),
            "events": *events, "skipped": *skipped,
        });
        let _ = writeln!(w, "S {}", s);
        let _ = w.flush();
        faults.clear();
        probes.clear();
        known_seen.clear();
        states.clear();
        fps.clear();
        *events = 0;
        *skipped = 0;
    };

    for &i in &args.indices {
        let mut ctx = RunCtx::new(&args.known, false, crumb);
        ctx.crumb_run(i);
        unsafe {
            libc::alarm(30);
        }
        let seed = run_seed(args.seed, info.name, i);
        let mut rng = Rng::new(seed);
        let plan = scen.generate(&mut rng, args.tier, i);
        execute_guarded(scen.as_ref(), &plan, &mut ctx);
        unsafe {
            libc::alarm(0);
        }
        let _ = writeln!(w, "R {} {:x} {:x} {} {} {}", i, ctx.digest.0, ctx.fp.0, ctx.nontrivial as u8, ctx.events_executed, ctx.events_skipped);
        if let Some(v) = &ctx.violation {
            let _ = writeln!(w, "V {} {}", i, v.to_json());
        }
        for (k, v) in &ctx.faults {
            *faults.entry(k.clone()).or_insert(0) += v;
        }
        for (k, v) in &ctx.probes {
            *probes.entry(k.clone()).or_insert(0) += v;
        }
        for (k, v) in &ctx.known_seen {
            *known_seen.entry(k.clone()).or_insert(0) += v;
        }
        states.extend(ctx.abstract_states.iter());
        if ctx.nontrivial {
            fps.push(ctx.fp.0);
        }
        events += ctx.events_executed;
        skipped += ctx.events_skipped;
        pending += 1;
        if pending >= FLUSH_EVERY || ctx.violation.is_some() {
            dump(&mut w, &mut faults, &mut probes, &mut known_seen, &mut states, &mut fps, &mut events, &mut skipped);
            pending = 0;
        }
    }
    dump(&mut w, &mut faults, &mut probes, &mut known_seen, &mut states, &mut fps, &mut events, &mut skipped);
    let _ = writeln!(w, "E");
    let _ = w.flush();
}

/// `bsvsim plan`: print the plan of one run (pure generation).
pub fn plan_for(scenario: &str, seed: u64, tier: Tier, run: u64) -> Plan {
    let scen = scenario_by_name(scenario).unwrap_or_else(|| harness_error("unknown scenario"));
    let info = scen.info();
    let mut rng = Rng::new(run_seed(seed, info.name, run));
    scen.generate(&mut rng, tier, run)
}

/// `bsvsim exec`: execute one explicit plan, write the result JSON to `out`.
pub fn exec_main(scenario: &str, plan_file: &Path, out: &Path, crumb: Option<PathBuf>, known: BTreeSet<String>, trace: bool) {
    let (scenario, plan_file, out) = (scenario.to_string(), plan_file.to_path_buf(), out.to_path_buf());
    let h = std::thread::Builder::new().name("sim".into()).stack_size(SIM_STACK).spawn(move || exec_body(&scenario, &plan_file, &out, crumb, known, trace)).unwrap_or_else(|e| harness_error(&format!("spawn sim thread: {}", e)));
    if h.join().is_err() {
        std::process::exit(101);
    }
}

fn exec_body(scenario: &str, plan_file: &Path, out: &Path, crumb: Option<PathBuf>, known: BTreeSet<String>, trace: bool) {
    let scen = scenario_by_name(scenario).unwrap_or_else(|| harness_error("unknown scenario"));
    let info = scen.info();
    set_limits(info.rlimit_as);
    install_panic_hook();
    crate::faults::stdout_to_devnull();
    let text = fs::read_to_string(plan_file).unwrap_or_else(|e| harness_error(&format!("plan file: {}", e)));
    let v: Value = serde_json::from_str(&text).unwrap_or_else(|e| harness_error(&format!("plan json: {}", e)));
    let plan = Plan::from_json(&v).unwrap_or_else(|| harness_error("plan shape"));
    let crumb = crumb.as_ref().and_then(|p| map_crumb(p));
    // optional prelude: earlier runs of the same worker, executed first in this very process, for violations that
    // depend on state the library keeps outside the objects under test (statics, thread-locals)
    if let Some(pre) = v.get("prelude").and_then(|p| p.as_array()) {
        for pv in pre {
            if let Some(pp) = Plan::from_json(pv) {
                let mut pctx = RunCtx::new(&known, false, crumb);
                pctx.crumb_run(0);
                unsafe {
                    libc::alarm(240);
                }
                execute_guarded(scen.as_ref(), &pp, &mut pctx);
                unsafe {
                    libc::alarm(0);
                }
            }
        }
    }
    if let Some(pr) = v.get("prelude_ref").and_then(PreludeRef::from_json) {
        let tier = pr.tier.unwrap_or(Tier::Quick);
        for i in &pr.indices {
            let mut rng = Rng::new(run_seed(pr.seed, scen.info().name, *i));
            let pp = scen.generate(&mut rng, tier, *i);
            let mut pctx = RunCtx::new(&known, false, crumb);
            pctx.crumb_run(0);
            unsafe {
                libc::alarm(240);
            }
            execute_guarded(scen.as_ref(), &pp, &mut pctx);
            unsafe {
                libc::alarm(0);
            }
        }
    }
    let mut ctx = RunCtx::new(&known, trace, crumb);
    ctx.crumb_run(0);
    let alarm_s: u32 = std::env::var("BSVSIM_ALARM").ok().and_then(|v| v.parse().ok()).unwrap_or(30);
    unsafe {
        libc::alarm(alarm_s);
    }
    execute_guarded(scen.as_ref(), &plan, &mut ctx);
    unsafe {
        libc::alarm(0);
    }
    let res = json!({
        "violation": ctx.violation.as_ref().map(|v| v.to_json()),
        "digest": format!("{:x}", ctx.digest.0),
        "executed": ctx.events_executed,
        "skipped": ctx.events_skipped,
        "known_seen": ctx.known_seen,
        "faults": ctx.faults,
        "probes": ctx.probes,
        "trace": ctx.trace,
    });
    fs::write(out, serde_json::to_string(&res).unwrap()).unwrap_or_else(|e| harness_error(&format!("exec out: {}", e)));
}

/// A panic that leaves `execute` although every library call is meant to sit inside a guard: when it was raised in the harness's
/// own sources it is a harness bug (exit 2); raised anywhere else it is the library (or a crate it calls) panicking on a path the
/// scenario did not expect to panic, and is judged like a guarded panic.
pub fn execute_guarded(scen: &dyn Scenario, plan: &Plan, ctx: &mut RunCtx) {
    let r = crate::core::guard(|| scen.execute(plan, ctx));
    if let Err(p) = r {
        crate::faults::stdout_heal();
        let _ = crate::faults::mem_end();
        // the harness's own sources, the standard library and serde_json (which the harness indexes into all the time) are
        // the harness's side; the library's sources and the crates it calls are the library's
        if p.site.starts_with("src/") || p.site.starts_with("sim/src/") || p.site == "unknown" || p.site.contains("/rustc/") || p.site.contains("library/") || p.site.starts_with("serde_json") {
            eprintln!("HARNESS-ERROR panic in the harness at {}: {}", p.site, p.msg);
            std::process::exit(2);
        }
        ctx.violate("panic", format!("panic@{}#outside any guard", crate::core::site_file(&p.site)), format!("library panicked at {}: {}", p.site, p.msg));
    }
}

// ---------------------------------------------------------------------------------------------
// parent side

fn self_exe() -> PathBuf {
    std::env::current_exe().unwrap_or_else(|e| harness_error(&format!("current_exe: {}", e)))
}

fn tail(path: &Path, n: usize) -> String {
    let s = fs::read(path).map(|b| String::from_utf8_lossy(&b).to_string()).unwrap_or_default();
    let lines: Vec<&str> = s.lines().collect();
    let start = lines.len().saturating_sub(n);
    lines[start..].join("\n")
}

/// Turn a dead child into a violation. None = harness error (panic escaped a guard etc).
fn death_violation(status: &std::process::ExitStatus, stderr_path: &Path, crumb: Option<(u64, u64, String)>) -> Result<Violation, String> {
    use std::os::unix::process::ExitStatusExt;
    let err = {
        // first 200 lines: the allocator / stack-overflow message precedes any backtrace
        let all = fs::read(stderr_path).map(|b| String::from_utf8_lossy(&b).to_string()).unwrap_or_default();
        all.lines().take(200).collect::<Vec<_>>().join("\n")
    };
    let (seq, label) = match crumb {
        Some((_, s, l)) => (s as usize, l),
        None => (0, String::new()),
    };
    let reason = if err.contains("memory allocation of") {
        "alloc".to_string()
    } else if err.contains("has overflowed its stack") {
        "stack-overflow".to_string()
    } else if let Some(sig) = status.signal() {
        if sig == libc::SIGALRM {
            "timeout".to_string()
        } else {
            format!("signal-{}", sig)
        }
    } else {
        match status.code() {
            Some(2) => return Err(format!("child reported a harness error:\n{}", err)),
            Some(101) => return Err(format!("a panic escaped the guards (harness bug):\n{}", err)),
            Some(c) => format!("exit-{}", c),
            None => "unknown".to_string(),
        }
    };
    let class = if reason == "timeout" { "timeout" } else { "abort" };
    let first_line = err.lines().find(|l| l.contains("memory allocation of") || l.contains("overflowed its stack")).unwrap_or("").to_string();
    Ok(Violation::new(class, format!("{}:{}@{}", class, reason, label), seq, format!("process died ({}) during `{}`; {}", reason, label, first_line)))
}

pub struct ExecResult {
    pub violation: Option<Violation>,
    pub digest: String,
    pub trace: Vec<String>,
    pub known_seen: BTreeMap<String, u64>,
}

/// set per scenario: is an allocator-exhaustion abort a violation (C09) or a resource outcome (C16)?
pub static ALLOC_ABORT_IS_VIOLATION: std::sync::atomic::AtomicBool = std::sync::atomic::AtomicBool::new(true);

fn is_resource_outcome(v: &Violation) -> bool {
    !ALLOC_ABORT_IS_VIOLATION.load(std::sync::atomic::Ordering::Relaxed) && v.signature.starts_with("abort:alloc@")
}

/// may a batch stop as soon as a verdict seems to exist? (switched off for the completion pass)
pub static ALLOW_EARLY_STOP: std::sync::atomic::AtomicBool = std::sync::atomic::AtomicBool::new(true);

static EXEC_COUNTER: std::sync::atomic::AtomicU64 = std::sync::atomic::AtomicU64::new(0);

/// Execute a plan in a fresh child process.
pub fn exec_plan(scratch: &Path, scenario: &str, plan: &Plan, known: &BTreeSet<String>, trace: bool) -> ExecResult {
    exec_plan_alarm(scratch, scenario, plan, known, trace, 30)
}

/// `alarm_s`: the hang watchdog of the child. A `timeout` verdict of a loaded batch is re-examined with a much
/// longer period before it is believed (wall-clock must not decide a verdict on a busy machine).
pub fn exec_plan_alarm(scratch: &Path, scenario: &str, plan: &Plan, known: &BTreeSet<String>, trace: bool, alarm_s: u32) -> ExecResult {
    exec_plan_full(scratch, scenario, plan, &[], None, known, trace, alarm_s)
}

pub fn exec_plan_full(scratch: &Path, scenario: &str, plan: &Plan, prelude: &[Plan], pref: Option<&PreludeRef>, known: &BTreeSet<String>, trace: bool, alarm_s: u32) -> ExecResult {
    let n = EXEC_COUNTER.fetch_add(1, std::sync::atomic::Ordering::Relaxed);
    let pf = scratch.join(format!("x{}.plan.json", n));
    let of = scratch.join(format!("x{}.out.json", n));
    let ef = scratch.join(format!("x{}.err", n));
    let cf = scratch.join(format!("x{}.crumb", n));
    let kf = scratch.join(format!("x{}.known", n));
    let mut pj = plan.to_json();
    if !prelude.is_empty() {
        pj["prelude"] = Value::Array(prelude.iter().map(|p| p.to_json()).collect());
    }
    if let Some(pr) = pref {
        if !pr.indices.is_empty() {
            pj["prelude_ref"] = pr.to_json();
        }
    }
    fs::write(&pf, serde_json::to_string(&pj).unwrap()).unwrap();
    fs::write(&kf, serde_json::to_string(&known.iter().collect::<Vec<_>>()).unwrap()).unwrap();
    let _ = fs::remove_file(&of);
    let mut cmd = Command::new(self_exe());
    cmd.env("RUST_BACKTRACE", "0");
    cmd.env("BSVSIM_ALARM", alarm_s.to_string());
    cmd.arg("exec").arg(scenario).arg(&pf).arg(&of).arg("--crumb").arg(&cf).arg("--known").arg(&kf);
    if trace {
        cmd.arg("--trace");
    }
    let status = cmd
        .stdin(Stdio::null())
        .stdout(Stdio::null())
        .stderr(fs::File::create(&ef).unwrap())
        .status()
        .unwrap_or_else(|e| harness_error(&format!("spawn exec: {}", e)));
    let res = if status.success() {
        let text = fs::read_to_string(&of).unwrap_or_else(|e| harness_error(&format!("exec result missing: {}", e)));
        let v: Value = serde_json::from_str(&text).unwrap_or_else(|e| harness_error(&format!("exec result json: {}", e)));
        ExecResult {
            violation: v.get("violation").and_then(Violation::from_json),
            digest: jstr(&v, "digest").to_string(),
            trace: v.get("trace").and_then(|t| t.as_array()).map(|a| a.iter().filter_map(|x| x.as_str().map(|s| s.to_string())).collect()).unwrap_or_default(),
            known_seen: v.get("known_seen").and_then(|m| m.as_object()).map(|m| m.iter().map(|(k, v)| (k.clone(), v.as_u64().unwrap_or(0))).collect()).unwrap_or_default(),
        }
    } else {
        match death_violation(&status, &ef, read_crumb(&cf)) {
            Ok(v) => {
                let v = if known.contains(&v.signature) || is_resource_outcome(&v) { None } else { Some(v) };
                // a death on a known signature still counts as seen
                let mut ks = BTreeMap::new();
                if v.is_none() {
                    if let Ok(dv) = death_violation(&status, &ef, read_crumb(&cf)) {
                        ks.insert(dv.signature, 1);
                    }
                }
                ExecResult { violation: v, digest: String::new(), trace: vec![], known_seen: ks }
            }
            Err(e) => harness_error(&e),
        }
    };
    for f in [&pf, &of, &ef, &cf, &kf] {
        let _ = fs::remove_file(f);
    }
    res
}

#[derive(Default)]
pub struct Agg {
    pub runs: u64,
    pub deaths: u64,
    pub events: u64,
    pub skipped: u64,
    pub faults: BTreeMap<String, u64>,
    pub probes: BTreeMap<String, u64>,
    pub known_seen: BTreeMap<String, u64>,
    pub states: HashSet<u64>,
    pub fps: HashSet<u64>,
    pub digests: HashMap<u64, u64>,
    pub violations: BTreeMap<u64, Violation>,
    pub stopped_early: bool,
    /// run indices at which a worker process died (the next worker of that shard starts with fresh process state)
    pub dead: BTreeSet<u64>,
    /// first run index of every worker process that was started (initial workers and respawns): a respawned worker first
    /// re-executes the runs whose result lines its predecessor had not flushed yet, so its history begins a little before the death
    pub gen_starts: BTreeSet<u64>,
}

/// Earlier runs to execute first in the same process, named by generator coordinates instead of event lists (a long history
/// would make plan and replay files huge); `plan_for` regenerates them.
#[derive(Clone, Debug, Default)]
pub struct PreludeRef {
    pub seed: u64,
    pub tier: Option<Tier>,
    pub indices: Vec<u64>,
}

impl PreludeRef {
    pub fn to_json(&self) -> Value {
        json!({"seed": self.seed.to_string(), "tier": self.tier.map(|t| t.as_str()).unwrap_or("quick"), "indices": self.indices})
    }
    pub fn from_json(v: &Value) -> Option<PreludeRef> {
        Some(PreludeRef {
            seed: v.get("seed")?.as_str()?.parse().ok()?,
            tier: Tier::parse(v.get("tier")?.as_str()?),
            indices: v.get("indices")?.as_array()?.iter().filter_map(|x| x.as_u64()).collect(),
        })
    }
}

struct Shard {
    indices: Vec<u64>,
    pos: usize,
    child: Option<std::process::Child>,
    out: PathBuf,
    err: PathBuf,
    crumb: PathBuf,
    gen: u32,
}

fn parse_worker_out(path: &Path, agg: &mut Agg, done: &mut HashSet<u64>) -> bool {
    let f = match fs::File::open(path) {
        Ok(f) => f,
        Err(_) => return false,
    };
    let mut ended = false;
    // R lines only count once the S line that follows them was flushed (they flush together);
    // we buffer R/V lines and commit on S.
    let mut pend_r: Vec<(u64, u64)> = vec![];
    let mut pend_v: Vec<(u64, Violation)> = vec![];
    for line in BufReader::new(f).lines() {
        let line = match line {
            Ok(l) => l,
            Err(_) => break,
        };
        if let Some(rest) = line.strip_prefix("R ") {
            let p: Vec<&str> = rest.split(' ').collect();
            if p.len() != 6 {
                continue;
            }
            let i: u64 = p[0].parse().unwrap_or(u64::MAX);
            let d = u64::from_str_radix(p[1], 16).unwrap_or(0);
            pend_r.push((i, d));
        } else if let Some(rest) = line.strip_prefix("V ") {
            if let Some((i, js)) = rest.split_once(' ') {
                if let (Ok(i), Ok(v)) = (i.parse::<u64>(), serde_json::from_str::<Value>(js)) {
                    if let Some(v) = Violation::from_json(&v) {
                        pend_v.push((i, v));
                    }
                }
            }
        } else if let Some(rest) = line.strip_prefix("S ") {
            let v: Value = match serde_json::from_str(rest) {
                Ok(v) => v,
                Err(_) => continue, // torn last line
            };
            for (i, d) in pend_r.drain(..) {
                if done.insert(i) {
                    agg.runs += 1;
                    agg.digests.insert(i, d);
                }
            }
            for (i, viol) in pend_v.drain(..) {
                agg.violations.entry(i).or_insert(viol);
            }
            let add = |m: &mut BTreeMap<String, u64>, key: &str| {
                if let Some(o) = v.get(key).and_then(|x| x.as_object()) {
                    for (k, n) in o {
                        *m.entry(k.clone()).or_insert(0) += n.as_u64().unwrap_or(0);
                    }
                }
            };
            add(&mut agg.faults, "faults");
            add(&mut agg.probes, "probes");
            add(&mut agg.known_seen, "known_seen");
            for key in ["states", "fps"] {
                if let Some(a) = v.get(key).and_then(|x| x.as_array()) {
                    for h in a {
                        if let Some(h) = h.as_str().and_then(|s| u64::from_str_radix(s, 16).ok()) {
                            if key == "states" {
                                agg.states.insert(h);
                            } else {
                                agg.fps.insert(h);
                            }
                        }
                    }
                }
            }
            agg.events += ju64(&v, "events");
            agg.skipped += ju64(&v, "skipped");
        } else if line == "E" {
            ended = true;
        }
    }
    ended
}

fn spawn_worker(scenario: &str, seed: u64, tier: Tier, indices: &[u64], out: &Path, err: &Path, crumb: &Path, known_file: &Path, list_file: &Path) -> std::process::Child {
    fs::write(list_file, indices.iter().map(|i| i.to_string()).collect::<Vec<_>>().join("\n")).unwrap();
    let _ = fs::remove_file(out);
    Command::new(self_exe())
        .env("RUST_BACKTRACE", "0")
        .arg("worker")
        .arg(scenario)
        .arg("--seed")
        .arg(seed.to_string())
        .arg("--tier")
        .arg(tier.as_str())
        .arg("--list")
        .arg(list_file)
        .arg("--out")
        .arg(out)
        .arg("--crumb")
        .arg(crumb)
        .arg("--known")
        .arg(known_file)
        .stdin(Stdio::null())
        .stdout(Stdio::null())
        .stderr(fs::File::create(err).unwrap())
        .spawn()
        .unwrap_or_else(|e| harness_error(&format!("spawn worker: {}", e)))
}

/// Run `indices` over `workers` processes; deaths are attributed, recorded and the shard resumed.
pub fn run_sharded(scratch: &Path, scenario: &str, seed: u64, tier: Tier, indices: &[u64], workers: usize, known: &BTreeSet<String>, tag: &str) -> Agg {
    let mut agg = Agg::default();
    let known_file = scratch.join(format!("{}.known", tag));
    fs::write(&known_file, serde_json::to_string(&known.iter().collect::<Vec<_>>()).unwrap()).unwrap();
    let w = workers.max(1).min(indices.len().max(1));
    let mut shards: Vec<Shard> = (0..w)
        .map(|k| Shard {
            indices: indices.iter().cloned().skip(k).step_by(w).collect(),
            pos: 0,
            child: None,
            out: PathBuf::new(),
            err: PathBuf::new(),
            crumb: PathBuf::new(),
            gen: 0,
        })
        .collect();
    let mut done: HashSet<u64> = HashSet::new();
    let mut dead: HashSet<u64> = HashSet::new();
    let mut respawns = 0u64;
    // start all
    for (k, sh) in shards.iter_mut().enumerate() {
        if sh.indices.is_empty() {
            continue;
        }
        sh.out = scratch.join(format!("{}.w{}.g{}.out", tag, k, sh.gen));
        sh.err = scratch.join(format!("{}.w{}.g{}.err", tag, k, sh.gen));
        sh.crumb = scratch.join(format!("{}.w{}.g{}.crumb", tag, k, sh.gen));
        let list = scratch.join(format!("{}.w{}.g{}.list", tag, k, sh.gen));
        agg.gen_starts.insert(sh.indices[0]);
        sh.child = Some(spawn_worker(scenario, seed, tier, &sh.indices, &sh.out, &sh.err, &sh.crumb, &known_file, &list));
    }
    // poll all shards; a dead worker is attributed and its shard resumed at once
    let mut live = shards.iter().filter(|s| s.child.is_some()).count();
    let mut first_violation: Option<Instant> = None;
    while live > 0 {
        let mut progressed = false;
        for k in 0..shards.len() {
            let sh = &mut shards[k];
            let status = match sh.child.as_mut() {
                None => continue,
                Some(c) => match c.try_wait() {
                    Ok(Some(st)) => st,
                    Ok(None) => continue,
                    Err(e) => harness_error(&format!("wait: {}", e)),
                },
            };
            progressed = true;
            sh.child = None;
            let ended = parse_worker_out(&sh.out, &mut agg, &mut done);
            if status.success() && ended {
                let _ = fs::remove_file(&sh.out);
                let _ = fs::remove_file(&sh.err);
                let _ = fs::remove_file(&sh.crumb);
                live -= 1;
                continue;
            }
            // died: attribute
            let crumb = read_crumb(&sh.crumb);
            let died_at = crumb.as_ref().map(|c| c.0);
            match death_violation(&status, &sh.err, crumb) {
                Ok(v) => {
                    let i = died_at.unwrap_or(u64::MAX);
                    if i == u64::MAX || !sh.indices.contains(&i) {
                        harness_error(&format!("worker died without a valid breadcrumb: {}\n{}", v.detail, tail(&sh.err, 20)));
                    }
                    agg.deaths += 1;
                    dead.insert(i);
                    agg.dead.insert(i);
                    if is_resource_outcome(&v) {
                        *agg.probes.entry("resource_abort".to_string()).or_insert(0) += 1;
                    } else if known.contains(&v.signature) {
                        *agg.known_seen.entry(v.signature.clone()).or_insert(0) += 1;
                    } else {
                        agg.violations.entry(i).or_insert(v);
                    }
                }
                Err(e) => harness_error(&e),
            }
            respawns += 1;
            if respawns > 200_000 {
                harness_error("too many worker deaths");
            }
            let rest: Vec<u64> = sh.indices.iter().cloned().filter(|i| !done.contains(i) && !dead.contains(i)).collect();
            let _ = fs::remove_file(&sh.out);
            let _ = fs::remove_file(&sh.err);
            if rest.is_empty() {
                live -= 1;
                continue;
            }
            sh.gen += 1;
            sh.out = scratch.join(format!("{}.w{}.g{}.out", tag, k, sh.gen));
            sh.err = scratch.join(format!("{}.w{}.g{}.err", tag, k, sh.gen));
            let list = scratch.join(format!("{}.w{}.g{}.list", tag, k, sh.gen));
            agg.gen_starts.insert(rest[0]);
            sh.child = Some(spawn_worker(scenario, seed, tier, &rest, &sh.out, &sh.err, &sh.crumb, &known_file, &list));
            let _ = sh.pos;
        }
        // a verdict exists: do not burn the rest of the budget (each hang costs a 20 s watchdog period)
        if !agg.violations.is_empty() && ALLOW_EARLY_STOP.load(std::sync::atomic::Ordering::Relaxed) {
            let t = *first_violation.get_or_insert_with(Instant::now);
            // one watchdog hit can be load; three say the library really hangs or dies
            let costly = agg.violations.values().filter(|v| v.class == "timeout" || v.class == "abort").count() >= 3;
            if costly || t.elapsed().as_secs_f64() > 5.0 {
                for sh in shards.iter_mut() {
                    if let Some(mut c) = sh.child.take() {
                        let _ = c.kill();
                        let _ = c.wait();
                        parse_worker_out(&sh.out, &mut agg, &mut done);
                    }
                }
                agg.stopped_early = true;
                break;
            }
        }
        if !progressed {
            std::thread::sleep(std::time::Duration::from_millis(3));
        }
    }
    agg.runs += agg.deaths;
    agg
}

// ---------------------------------------------------------------------------------------------
// minimisation

pub fn minimise(scratch: &Path, scen: &dyn Scenario, scenario: &str, plan: &Plan, target: &Violation, known: &BTreeSet<String>) -> (Plan, u32) {
    // every candidate that still hangs costs a full watchdog period: a hang is shrunk with a dozen attempts, not 400
    let mut budget: i32 = if target.class == "timeout" { 12 } else { 400 };
    let mut tries = 0u32;
    let mut cur = plan.clone();
    let mut fails = |cand: &Plan, budget: &mut i32, tries: &mut u32| -> bool {
        if *budget <= 0 {
            return false;
        }
        *budget -= 1;
        *tries += 1;
        match exec_plan(scratch, scenario, cand, known, false).violation {
            Some(v) => v.signature == target.signature,
            None => false,
        }
    };
    // 1. ddmin over the event list
    let mut n = 2usize;
    while cur.events.len() >= 2 && budget > 0 {
        let len = cur.events.len();
        let chunk = (len + n - 1) / n;
        let mut reduced = false;
        let mut start = 0;
        while start < len {
            let end = (start + chunk).min(len);
            let mut cand = cur.clone();
            cand.events.drain(start..end);
            if !cand.events.is_empty() && fails(&cand, &mut budget, &mut tries) {
                cur = cand;
                n = (n - 1).max(2);
                reduced = true;
                break;
            }
            start = end;
        }
        if !reduced {
            if n >= len {
                break;
            }
            n = (n * 2).min(len);
        }
    }
    // 2. single-event removal to a fixed point
    let mut changed = true;
    while changed && budget > 0 {
        changed = false;
        let mut i = 0;
        while i < cur.events.len() && cur.events.len() > 1 {
            let mut cand = cur.clone();
            cand.events.remove(i);
            if fails(&cand, &mut budget, &mut tries) {
                cur = cand;
                changed = true;
            } else {
                i += 1;
            }
        }
    }
    // 3. argument shrinking per event
    let mut changed = true;
    let mut rounds = 0;
    while changed && budget > 0 && rounds < 4 {
        changed = false;
        rounds += 1;
        for i in 0..cur.events.len() {
            for alt in scen.shrink_event(&cur.events[i]) {
                if alt == cur.events[i] {
                    continue;
                }
                let mut cand = cur.clone();
                cand.events[i] = alt;
                if fails(&cand, &mut budget, &mut tries) {
                    cur = cand;
                    changed = true;
                    break;
                }
            }
        }
    }
    (cur, tries)
}

// ---------------------------------------------------------------------------------------------
// replay files

pub fn write_replay(path: &Path, property: &str, scenario: &str, seed: u64, run: Option<u64>, tier: Tier, plan: &Plan, v: &Violation, note: &str) {
    write_replay_full(path, property, scenario, seed, run, tier, plan, &[], None, v, note)
}

pub fn write_replay_full(path: &Path, property: &str, scenario: &str, seed: u64, run: Option<u64>, tier: Tier, plan: &Plan, prelude: &[Plan], pref: Option<&PreludeRef>, v: &Violation, note: &str) {
    let mut doc = json!({
        "property": property,
        "scenario": scenario,
        "seed": seed,
        "run": run,
        "tier": tier.as_str(),
        "note": note,
        "violation": v.to_json(),
        "config": plan.config,
        "events": plan.events,
    });
    if !prelude.is_empty() {
        doc["prelude"] = Value::Array(prelude.iter().map(|p| p.to_json()).collect());
    }
    if let Some(pr) = pref {
        if !pr.indices.is_empty() {
            doc["prelude_ref"] = pr.to_json();
        }
    }
    if let Some(d) = path.parent() {
        let _ = fs::create_dir_all(d);
    }
    fs::write(path, serde_json::to_string_pretty(&doc).unwrap()).unwrap_or_else(|e| harness_error(&format!("write replay: {}", e)));
}

pub fn load_prelude(path: &Path) -> Vec<Plan> {
    fs::read_to_string(path)
        .ok()
        .and_then(|t| serde_json::from_str::<Value>(&t).ok())
        .and_then(|v| v.get("prelude").and_then(|p| p.as_array()).map(|a| a.iter().filter_map(Plan::from_json).collect()))
        .unwrap_or_default()
}

pub fn load_prelude_ref(path: &Path) -> Option<PreludeRef> {
    fs::read_to_string(path).ok().and_then(|t| serde_json::from_str::<Value>(&t).ok()).and_then(|v| v.get("prelude_ref").and_then(PreludeRef::from_json))
}

pub fn load_replay(path: &Path) -> (String, String, Plan, Option<Violation>) {
    let text = fs::read_to_string(path).unwrap_or_else(|e| harness_error(&format!("replay file {}: {}", path.display(), e)));
    let v: Value = serde_json::from_str(&text).unwrap_or_else(|e| harness_error(&format!("replay json: {}", e)));
    let plan = Plan::from_json(&v).unwrap_or_else(|| harness_error("replay file has no config/events"));
    (jstr(&v, "property").to_string(), jstr(&v, "scenario").to_string(), plan, v.get("violation").and_then(Violation::from_json))
}

/// `check <ID> --replay <file>`: exit 1 + VIOLATION line if the stored trace still fails.
pub fn replay_main(path: &Path, verbose: bool) -> i32 {
    let scratch = scratch_dir();
    let (property, scenario, plan, expect) = load_replay(path);
    if let Some(sc) = scenario_by_name(&scenario) {
        ALLOC_ABORT_IS_VIOLATION.store(sc.info().alloc_abort_is_violation, std::sync::atomic::Ordering::Relaxed);
    }
    let prelude = load_prelude(path);
    let pref = load_prelude_ref(path);
    // like the batch, a replay runs past findings that are listed as known - except the one the file itself is about
    let mut known: BTreeSet<String> = load_findings(&property).into_iter().filter(|f| f.status == "known").map(|f| f.signature).collect();
    if let Some(e) = &expect {
        known.remove(&e.signature);
    }
    let res = exec_plan_full(&scratch, &scenario, &plan, &prelude, pref.as_ref(), &known, true, if pref.is_some() { 240 } else { 60 });
    let _ = fs::remove_dir_all(&scratch);
    if verbose {
        for l in &res.trace {
            println!("  | {}", l);
        }
    }
    match res.violation {
        Some(v) => {
            println!("replay: {} [{}] at event {}: {}", v.signature, v.class, v.at_seq, v.detail);
            if let Some(e) = expect {
                if e.signature != v.signature {
                    println!("replay: note: stored signature was `{}`", e.signature);
                }
            }
            println!("VIOLATION property={} replay={}", property, path.display());
            1
        }
        None => {
            println!("replay: no violation (the stored trace passes on this tree)");
            0
        }
    }
}

// ---------------------------------------------------------------------------------------------
// orchestrate

pub struct OrchArgs {
    pub scenario: String,
    pub tier: Tier,
    pub seed: u64,
    pub runs: Option<u64>,
    pub workers: usize,
    pub write_evidence: bool,
}

pub fn orchestrate(a: OrchArgs) -> i32 {
    let t0 = Instant::now();
    let scen = scenario_by_name(&a.scenario).unwrap_or_else(|| harness_error("unknown scenario"));
    let info = scen.info();
    let property = info.property;
    ALLOC_ABORT_IS_VIOLATION.store(info.alloc_abort_is_violation, std::sync::atomic::Ordering::Relaxed);
    let scratch = scratch_dir();
    println!("property={} scenario={} tier={} VERIF_SEED={} workers={}", property, info.name, a.tier.as_str(), a.seed, a.workers);

    // 1. known findings: replay each stored minimal trace, print KNOWN-FINDING for those that still fail
    let findings = load_findings(property);
    let mut known: BTreeSet<String> = BTreeSet::new();
    let mut known_reported = 0;
    for f in findings.iter().filter(|f| f.status == "known") {
        let still = match &f.replay {
            Some(r) => {
                let (_, sc, plan, _) = load_replay(&verif_root().join(r));
                let res = exec_plan_full(&scratch, &sc, &plan, &load_prelude(&verif_root().join(r)), load_prelude_ref(&verif_root().join(r)).as_ref(), &BTreeSet::new(), false, 60);
                match res.violation {
                    Some(v) if v.signature == f.signature => true,
                    Some(v) => {
                        println!("note: stored trace {} now fails differently: {} (expected {})", r, v.signature, f.signature);
                        false
                    }
                    None => false,
                }
            }
            None => true,
        };
        if still {
            println!("KNOWN-FINDING: property={} {} [{}]", property, f.what, f.signature);
            known.insert(f.signature.clone());
            known_reported += 1;
        } else {
            println!("note: known finding `{}` no longer reproduces on this tree; it is not suppressed", f.signature);
        }
    }

    // 2. exploration
    let runs = a.runs.unwrap_or(match a.tier {
        Tier::Quick => info.quick_runs,
        Tier::Thorough => info.thorough_runs,
    });
    let indices: Vec<u64> = (0..runs).collect();
    let mut agg = run_sharded(&scratch, info.name, a.seed, a.tier, &indices, a.workers, &known, "main");
    let explore_s = t0.elapsed().as_secs_f64();

    // 3. determinism self-check: re-run a spread of indices in one fresh worker, compare digests
    let mut sample: Vec<u64> = {
        let mut have: Vec<u64> = agg.digests.keys().cloned().collect();
        have.sort();
        let want = 64.min(have.len());
        (0..want).map(|j| have[j * have.len() / want.max(1)]).collect()
    };
    sample.dedup();
    let mut det_mismatch = 0;
    if !sample.is_empty() {
        let agg2 = run_sharded(&scratch, info.name, a.seed, a.tier, &sample, 1, &known, "det");
        for i in &sample {
            match (agg.digests.get(i), agg2.digests.get(i)) {
                (Some(x), Some(y)) if x == y => {}
                (Some(_), None) => {} // died in replay: attributed as a violation by the main pass as well
                _ => det_mismatch += 1,
            }
        }
        for (i, v) in agg2.violations {
            agg.violations.entry(i).or_insert(v);
        }
    }
    if det_mismatch > 0 && agg.violations.is_empty() {
        let _ = fs::remove_dir_all(&scratch);
        harness_error(&format!("determinism self-check failed: {} of {} re-executed runs produced a different event-log digest", det_mismatch, sample.len()));
    }
    if det_mismatch > 0 {
        // with a violation in hand the verdict stands; the mismatch says that what a run observes depends on earlier
        // runs in the same process (state kept outside the objects under test), which is worth knowing
        println!("note: {} of {} runs re-executed in a fresh process produced a different event log: behaviour depends on process history", det_mismatch, sample.len());
    }

    // 4. violations
    let mut exit = 0;
    let mut reported: Vec<(String, String)> = vec![];
    // completion pass: a batch that stopped early must not be reported as explored unless a violation is confirmed below;
    // the remaining indices are run now with early stopping switched off when nothing confirms
    // the first violation (lowest run index) that reproduces in a fresh process is the one reported
    let mut confirmed: Option<(u64, Violation, Plan)> = None;
    let mut confirmed_prelude: Vec<Plan> = vec![];
    let confirmed_pref_cell: std::cell::RefCell<Option<PreludeRef>> = std::cell::RefCell::new(None);
    let unreproduced: std::cell::RefCell<Vec<String>> = std::cell::RefCell::new(vec![]);
    let mut dropped_timeouts = 0u64;
    let n_shards = a.workers.max(1).min(indices.len().max(1)) as u64;
    let dead_runs: BTreeSet<u64> = agg.dead.clone();
    let gen_starts: BTreeSet<u64> = agg.gen_starts.clone();
    let confirm_pass = |viols: &BTreeMap<u64, Violation>, confirmed: &mut Option<(u64, Violation, Plan)>, confirmed_prelude: &mut Vec<Plan>, dropped_timeouts: &mut u64| {
        for (&run, v) in viols.iter() {
            let plan = plan_for(info.name, a.seed, a.tier, run);
            let is_timeout = v.class == "timeout";
            let confirm = exec_plan_alarm(&scratch, info.name, &plan, &known, false, if is_timeout { 240 } else { 60 });
            match confirm.violation {
                Some(cv) => {
                    *confirmed = Some((run, cv, plan));
                    return;
                }
                None if is_timeout => {
                    // slow under load, not a hang: with a 240 s watchdog on an otherwise idle process it finishes
                    *dropped_timeouts += 1;
                    println!("note: run {} hit the 30 s watchdog inside the loaded batch but completes in a fresh process; not a violation", run);
                }
                None => {
                    // not reproducible alone: does it need what earlier runs of the same worker left behind in the process?
                    let mut pre: Vec<Plan> = vec![];
                    for k in 1..=12u64 {
                        match run.checked_sub(k * n_shards) {
                            // a run that killed its worker ends the history: the next worker started with fresh process state
                            Some(j) if !dead_runs.contains(&j) => pre.insert(0, plan_for(info.name, a.seed, a.tier, j)),
                            _ => break,
                        }
                    }
                    let with_pre = exec_plan_full(&scratch, info.name, &plan, &pre, None, &known, false, 240);
                    match with_pre.violation {
                        Some(cv) => {
                            // keep only as much history as is needed
                            while pre.len() > 1 {
                                let shorter = pre[1..].to_vec();
                                match exec_plan_full(&scratch, info.name, &plan, &shorter, None, &known, false, 240).violation {
                                    Some(v2) if v2.signature == cv.signature => pre = shorter,
                                    _ => break,
                                }
                            }
                            println!("note: the violation of run {} only shows after {} earlier run(s) in the same process: the library keeps state outside the objects under test", run, pre.len());
                            *confirmed_prelude = pre;
                            *confirmed = Some((run, cv, plan));
                            return;
                        }
                        None => {
                            // the whole history of that worker since it was (re)started: every earlier run of the shard after
                            // the last one that killed a worker, named by generator coordinates
                            // exactly what the worker process that executed `run` had executed before it: from the first index of
                            // its generation (a respawn re-executes a few unflushed runs from before the death), skipping runs that
                            // killed an earlier worker
                            let gen_start = gen_starts.iter().rev().find(|s| **s <= run && (run - **s) % n_shards == 0).cloned().unwrap_or(run % n_shards);
                            let mut hist: Vec<u64> = vec![];
                            let mut j = run;
                            while let Some(p) = j.checked_sub(n_shards) {
                                j = p;
                                if j < gen_start || hist.len() >= 120_000 {
                                    break;
                                }
                                if !dead_runs.contains(&j) {
                                    hist.push(j);
                                }
                            }
                            hist.reverse();
                            let mut pr = PreludeRef { seed: a.seed, tier: Some(a.tier), indices: hist };
                            match exec_plan_full(&scratch, info.name, &plan, &[], Some(&pr), &known, false, 240).violation {
                                Some(cv) => {
                                    // shortest suffix of the history that still shows it (bisection on the length)
                                    let (mut lo, mut hi) = (0usize, pr.indices.len());
                                    let mut attempts = 0;
                                    while hi - lo > 1 && attempts < 8 {
                                        attempts += 1;
                                        let mid = (lo + hi) / 2;
                                        let cand = PreludeRef { seed: a.seed, tier: Some(a.tier), indices: pr.indices[pr.indices.len() - mid..].to_vec() };
                                        match exec_plan_full(&scratch, info.name, &plan, &[], Some(&cand), &known, false, 240).violation {
                                            Some(v2) if v2.signature == cv.signature => hi = mid,
                                            _ => lo = mid,
                                        }
                                    }
                                    pr.indices = pr.indices[pr.indices.len() - hi..].to_vec();
                                    println!("note: the violation of run {} only shows after {} earlier runs in the same process: the library keeps state outside the objects under test", run, pr.indices.len());
                                    *confirmed_pref_cell.borrow_mut() = Some(pr);
                                    *confirmed = Some((run, cv, plan));
                                    return;
                                }
                                None => {
                                    if v.signature.starts_with("abort:signal-9") {
                                        // SIGKILL never comes from the library: the kernel's OOM killer or an operator ended the worker
                                        println!("note: run {} was killed from outside (SIGKILL) and completes in a fresh process; not a violation", run);
                                        *dropped_timeouts += 1;
                                    } else {
                                        println!("note: violation `{}` of run {} did not reproduce in a fresh process: alone, after the 12 preceding runs of its worker, or after that worker's whole history", v.signature, run);
                                        unreproduced.borrow_mut().push(format!("{} (run {})", v.signature, run));
                                    }
                                }
                            }
                        }
                    }
                }
            }
        }
    };
    confirm_pass(&agg.violations, &mut confirmed, &mut confirmed_prelude, &mut dropped_timeouts);
    if confirmed.is_none() && agg.stopped_early {
        // nothing real was found but the batch was cut short: run what is missing, without early stopping
        println!("note: the batch stopped early on watchdog hits that did not reproduce; completing the remaining runs");
        let rest: Vec<u64> = indices.iter().cloned().filter(|i| !agg.digests.contains_key(i)).collect();
        ALLOW_EARLY_STOP.store(false, std::sync::atomic::Ordering::Relaxed);
        let more = run_sharded(&scratch, info.name, a.seed, a.tier, &rest, a.workers, &known, "rest");
        ALLOW_EARLY_STOP.store(true, std::sync::atomic::Ordering::Relaxed);
        agg.runs += more.runs;
        agg.deaths += more.deaths;
        agg.events += more.events;
        agg.skipped += more.skipped;
        for (k, v) in more.faults {
            *agg.faults.entry(k).or_insert(0) += v;
        }
        for (k, v) in more.probes {
            *agg.probes.entry(k).or_insert(0) += v;
        }
        for (k, v) in more.known_seen {
            *agg.known_seen.entry(k).or_insert(0) += v;
        }
        agg.states.extend(more.states);
        agg.fps.extend(more.fps);
        agg.digests.extend(more.digests);
        agg.stopped_early = false;
        let fresh: BTreeMap<u64, Violation> = more.violations;
        confirm_pass(&fresh, &mut confirmed, &mut confirmed_prelude, &mut dropped_timeouts);
        for (k, v) in fresh {
            agg.violations.entry(k).or_insert(v);
        }
    }
    let confirmed_pref: Option<PreludeRef> = confirmed_pref_cell.borrow().clone();
    if confirmed.is_none() && !unreproduced.borrow().is_empty() {
        // something was observed that no fresh process shows again: nothing this run reports can be believed
        let _ = fs::remove_dir_all(&scratch);
        harness_error(&format!("violation(s) seen in the batch that do not reproduce in a fresh process: {}", unreproduced.borrow().join("; ")));
    }
    if let Some((run, target, plan)) = confirmed {
        let (min_plan, tries) = if confirmed_prelude.is_empty() && confirmed_pref.is_none() { minimise(&scratch, scen.as_ref(), info.name, &plan, &target, &known) } else { (plan.clone(), 0) };
        let final_res = exec_plan_full(&scratch, info.name, &min_plan, &confirmed_prelude, confirmed_pref.as_ref(), &known, true, 240);
        let (final_plan, final_v) = match final_res.violation {
            Some(fv) if fv.signature == target.signature => (min_plan, fv),
            _ => (plan.clone(), target.clone()),
        };
        let rp = verif_root().join("replays").join(format!("{}-{:x}-{}.json", property, a.seed, run));
        write_replay_full(&rp, property, info.name, a.seed, Some(run), a.tier, &final_plan, &confirmed_prelude, confirmed_pref.as_ref(), &final_v, &format!("minimised from {} to {} events in {} re-executions; prelude runs needed: {}", plan.events.len(), final_plan.events.len(), tries, confirmed_prelude.len() + confirmed_pref.as_ref().map(|p| p.indices.len()).unwrap_or(0)));
        println!("violation: run={} signature={} class={}", run, final_v.signature, final_v.class);
        println!("  detail: {}", final_v.detail);
        println!("  events: {} -> {} (minimised, {} re-executions)", plan.events.len(), final_plan.events.len(), tries);
        for l in final_res.trace.iter().take(60) {
            println!("  | {}", l);
        }
        let mut others: BTreeMap<&String, (u64, u64)> = BTreeMap::new();
        for (i, v) in agg.violations.iter() {
            if v.signature != final_v.signature {
                let e = others.entry(&v.signature).or_insert((0, *i));
                e.0 += 1;
            }
        }
        if !others.is_empty() {
            let all = std::env::var("VERIF_LIST_ALL").is_ok();
            println!("  other violation signatures seen in this batch ({}):", others.len());
            for (s, (n, first)) in others.iter().take(if all { 10_000 } else { 20 }) {
                println!("    {}  (x{}, first run {})", s, n, first);
            }
        }
        println!("VIOLATION property={} replay={}", property, rp.display());
        reported.push((final_v.signature.clone(), rp.display().to_string()));
        exit = 1;
    }

    // 4b. triage aid (never used by registered commands): minimise one trace per distinct signature
    if let Ok(dir) = std::env::var("VERIF_SAVE_ALL") {
        let mut seen: BTreeSet<String> = BTreeSet::new();
        for (&run, v) in agg.violations.iter() {
            if !seen.insert(v.signature.clone()) {
                continue;
            }
            let plan = plan_for(info.name, a.seed, a.tier, run);
            if let Some(cv) = exec_plan(&scratch, info.name, &plan, &known, false).violation {
                let (mp, tries) = minimise(&scratch, scen.as_ref(), info.name, &plan, &cv, &known);
                let safe: String = cv.signature.chars().map(|c| if c.is_ascii_alphanumeric() { c } else { '_' }).collect();
                let path = PathBuf::from(&dir).join(format!("{}-{}.json", property, safe));
                write_replay(&path, property, info.name, a.seed, Some(run), a.tier, &mp, &cv, &format!("minimised from {} to {} events in {} re-executions", plan.events.len(), mp.events.len(), tries));
                println!("saved {} -> {}", cv.signature, path.display());
            }
        }
    }

    // 5. evidence
    let wall = t0.elapsed().as_secs_f64();
    let mut zero_probes = vec![];
    for p in info.required_probes {
        if agg.probes.get(*p).cloned().unwrap_or(0) == 0 {
            zero_probes.push(p.to_string());
        }
    }
    if a.write_evidence {
        let samples: Vec<Value> = (0..3.min(runs))
            .map(|i| {
                let p = plan_for(info.name, a.seed, a.tier, i);
                let mut evs = p.events.clone();
                let total = evs.len();
                evs.truncate(24);
                json!({"run": i, "run_seed": format!("{:#x}", run_seed(a.seed, info.name, i)), "config": p.config, "n_events": total, "events_first_24": evs})
            })
            .collect();
        let distinct = agg.fps.len() as u64;
        let ev = json!({
            "property_id": property,
            "tier": a.tier.as_str(),
            "seed": a.seed,
            "level": "exploration",
            "wall_s": wall,
            "violations": agg.violations.len(),
            "assumptions": info.assumptions,
            "coverage": {
                "evaluations": agg.runs,
                "distinct_nontrivial": distinct,
                "rule": info.rule,
                "samples": samples,
                "scenario": info.name,
                "technique": "deterministic simulation: seeded scheduler over API-call histories / driver schedules with fault injection at the library's seams; violations minimised and replayable from an explicit event list",
                "runs_per_hour": if explore_s > 0.0 { (agg.runs as f64 / explore_s * 3600.0) as u64 } else { 0 },
                "seeds": {"verif_seed": a.seed, "first_run_seed": format!("{:#x}", run_seed(a.seed, info.name, 0)), "last_run_seed": format!("{:#x}", run_seed(a.seed, info.name, runs.saturating_sub(1)))},
                "logical_events": agg.events,
                "events_skipped_precondition": agg.skipped,
                "simulated_time": "none - the system under test reads no clock; logical events are reported instead",
                "fault_counts_fired": agg.faults,
                "probes": agg.probes,
                "probes_required_but_zero": zero_probes,
                "abstract_states": agg.states.len(),
                "abstract_state_definition": info.abstract_state,
                "components": {"real": info.real, "stub": info.stub},
                "determinism": {"pairs": sample.len(), "mismatches": det_mismatch},
                "process_deaths_attributed": agg.deaths,
                "known_findings_listed": known_reported,
                "known_findings_seen": agg.known_seen,
                "stopped_early_after_violation": agg.stopped_early,
                "watchdog_hits_not_reproduced": dropped_timeouts,
                "violations_reported": reported.iter().map(|(s, r)| json!({"signature": s, "replay": r})).collect::<Vec<_>>(),
                "workers": a.workers,
            }
        });
        let dir = verif_root().join("evidence");
        let _ = fs::create_dir_all(&dir);
        fs::write(dir.join(format!("{}.json", property)), serde_json::to_string_pretty(&ev).unwrap()).unwrap_or_else(|e| harness_error(&format!("evidence: {}", e)));
    }
    let _ = fs::remove_dir_all(&scratch);
    println!(
        "runs={} events={} distinct_nontrivial_schedules={} abstract_states={} deaths={} known_seen={} wall={:.1}s",
        agg.runs,
        agg.events,
        agg.fps.len(),
        agg.states.len(),
        agg.deaths,
        agg.known_seen.values().sum::<u64>(),
        wall
    );
    if !zero_probes.is_empty() {
        println!("warning: probes stuck at zero: {:?}", zero_probes);
        // the gate applies to the full thorough budget; VERIF_ENFORCE_PROBES=1 applies it to a reduced budget (VERIF_RUNS) as well
        if a.tier == Tier::Thorough && exit == 0 && (a.runs.is_none() || std::env::var("VERIF_ENFORCE_PROBES").is_ok()) {
            harness_error("required probes never fired in a thorough run; the workload no longer reaches the branch the property is about");
        }
    }
    if exit == 0 {
        println!("OK property={} held on everything explored", property);
    }
    exit
}

// ---------------------------------------------------------------------------------------------
// self-test: determinism across repeated executions and worker counts

pub fn selftest_determinism(seeds: u64, runs_per_seed: u64) -> i32 {
    let scratch = scratch_dir();
    let mut bad = 0u64;
    let mut pairs = 0u64;
    for (pid, name) in crate::scenarios::ALL {
        let scen = scenario_by_name(name).unwrap();
        let info = scen.info();
        ALLOC_ABORT_IS_VIOLATION.store(info.alloc_abort_is_violation, std::sync::atomic::Ordering::Relaxed);
        let known: BTreeSet<String> = load_findings(pid).into_iter().filter(|f| f.status == "known").map(|f| f.signature).collect();
        // half of the sample from the start of the index space (the enumerated prefixes of C04/C16 live there), half from far
        // beyond any enumerated prefix (seeded plans)
        let indices: Vec<u64> = (0..runs_per_seed / 2).chain((0..runs_per_seed - runs_per_seed / 2).map(|i| 10_000_000 + i)).collect();
        let mut mism = 0u64;
        for sd in 0..seeds {
            let seed = DEFAULT_SEED ^ (sd.wrapping_mul(0x9E3779B97F4A7C15));
            let a = run_sharded(&scratch, info.name, seed, Tier::Quick, &indices, 1, &known, "d1");
            let b = run_sharded(&scratch, info.name, seed, Tier::Quick, &indices, 4, &known, "d4");
            let c = run_sharded(&scratch, info.name, seed, Tier::Quick, &indices, 16, &known, "d16");
            for i in &indices {
                pairs += 2;
                let (x, y, z) = (a.digests.get(i), b.digests.get(i), c.digests.get(i));
                if x != y {
                    mism += 1;
                }
                if x != z {
                    mism += 1;
                }
            }
            let va: Vec<_> = a.violations.iter().map(|(i, v)| (*i, v.signature.clone())).collect();
            let vb: Vec<_> = b.violations.iter().map(|(i, v)| (*i, v.signature.clone())).collect();
            let vc: Vec<_> = c.violations.iter().map(|(i, v)| (*i, v.signature.clone())).collect();
            if va != vb || va != vc {
                mism += 1;
            }
            if a.fps != b.fps || a.fps != c.fps || a.states != b.states || a.states != c.states || a.faults != b.faults || a.faults != c.faults {
                mism += 1;
            }
        }
        println!("determinism {} {}: {} seeds x {} runs at W=1,4,16 -> {} mismatches", pid, name, seeds, runs_per_seed, mism);
        bad += mism;
    }
    let _ = fs::remove_dir_all(&scratch);
    println!("determinism: {} digest pairs compared, {} mismatches", pairs, bad);
    if bad > 0 {
        2
    } else {
        0
    }
}
