#!/bin/bash
# ingest_round3.sh <WHO> <worktree>: confirm each m<k> of a cross-cutting sub-agent, copy it to /verif/seeded/<property>-r3<who><k>
WHO=$1; WT=$2; OUT=/tmp/mut/out4/$WHO
for d in $OUT/m*; do
  k=$(basename $d | sed 's/m//')
  prop=$(head -1 $d/notes.md | sed -n 's/.*PROPERTY: *\(C[0-9][0-9]\).*/\1/p')
  /verif/selftest/confirm_seeded.sh $WT $d
  t=/verif/seeded/$prop-r4$(echo $WHO | tr 'A-Z' 'a-z')$k; mkdir -p $t
  cp $d/patch.diff $d/demo.rs $d/notes.md $t/
  echo "{\"property\": \"$prop\", \"status\": \"unconfirmed\", \"round\": 3, \"theme\": \"$WHO\"}" > $t/meta.json
done
