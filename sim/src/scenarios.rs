//! Scenario registry.
use crate::core::Scenario;

pub fn scenario_by_name(name: &str) -> Option<Box<dyn Scenario>> {
    match name {
        "tx-history" | "C04" => Some(Box::new(crate::scen_txhist::TxHistory)),
        "interp-driver" | "C16" => Some(Box::new(crate::scen_interp::InterpDriver)),
        "artefact-medium" | "C09" => Some(Box::new(crate::scen_artefact::ArtefactMedium)),
        "digest-stream" | "C13" => Some(Box::new(crate::scen_digest::DigestStream)),
        "ecies-net" | "C11" => Some(Box::new(crate::scen_ecies::EciesNet)),
        "ecdsa-net" | "C05" => Some(Box::new(crate::scen_ecdsa::EcdsaNet)),
        "spend-net" | "C15" => Some(Box::new(crate::scen_spend::SpendNet)),
        _ => None,
    }
}

pub const ALL: &[(&str, &str)] = &[("C04", "tx-history"), ("C16", "interp-driver"), ("C09", "artefact-medium"), ("C13", "digest-stream"), ("C11", "ecies-net"), ("C05", "ecdsa-net"), ("C15", "spend-net")];
