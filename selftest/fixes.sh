#!/bin/bash
# Sensitivity self-test, direction "repair reverted": for every fix: commit in /repo, reverse-apply it to the
# working tree, run the owning check (must exit 1 with a replay that re-fails), restore the tree.
# With --save the minimised replay is copied to /verif/findings/<ID>-fixed-<commit>.json.
# usage: selftest/fixes.sh [--save] [commit ...]
set -u
cd "$(dirname "$0")/.."
# never on the live /repo: the job's private snapshot under `vp run --with-repo`, a private clone otherwise
. selftest/_private_repo.sh
REPO="$VP_RUN_REPO"
if [ -n "${VP_RUN_REPO:-}" ]; then sed -i "s#path = \"/repo\"#path = \"$VP_RUN_REPO\"#" sim/Cargo.toml; fi
SAVE=0; [ "${1:-}" = "--save" ] && { SAVE=1; shift; }
declare -A OWNER
while read -r c subj; do
  case "$subj" in
    *"sighash memo cache"*) OWNER[$c]=C04 ;;
    *sign_with_random_k*) OWNER[$c]=C05 ;;
    *OP_NOTIF*|*SIGHASH_SINGLE*|*"SighashSignature::from_bytes"*|*hashSequence*|*remove_codeseparators*) OWNER[$c]=C15 ;;
    *digest-taking*|*"AES CTR"*|*"TxIn/TxOut readers"*|*"Script::from_bytes rejects"*|*ECIESCiphertext::from_bytes*|*from_wif*|*from_compact_bytes*|*to_decompressed*) OWNER[$c]=C09 ;;
    *interpreter*|*OP_*|*CHECKSIG*|*CHECKMULTISIG*|*conditional*|*Interpreter*|*verify_hashbuf*) OWNER[$c]=C16 ;;
    *) OWNER[$c]="${FIX_OWNER:-}" ;;
  esac
done < <(git -C "$REPO" log --format='%h %s' | grep ' fix:' | sed 's/ fix:/ /')
[ $# -gt 0 ] && LIST="$*" || LIST="${!OWNER[@]}"
if [ -n "$(git -C "$REPO" status --porcelain)" ]; then echo "repo working tree not clean" >&2; exit 2; fi
fail=0
for c in $LIST; do
  id="${OWNER[$c]:-}"
  ids="${FIX_OWNER_OVERRIDE:-$id}"
  [ -z "$ids" ] && { echo "SKIP $c (no owner)"; continue; }
  git -C "$REPO" revert --no-commit "$c" >/dev/null 2>&1 || { git -C "$REPO" revert --abort >/dev/null 2>&1; git -C "$REPO" reset -q --hard HEAD; echo "cannot revert $c"; fail=1; continue; }
  for id in $ids; do
    out=$(VERIF_NO_EVIDENCE=1 ./check "$id" quick 2>&1); rc=$?
    rp=$(echo "$out" | sed -n 's/^VIOLATION property=[^ ]* replay=//p' | head -1)
    if [ $rc -eq 1 ] && [ -n "$rp" ]; then
      ./check "$id" --replay "$rp" >/dev/null 2>&1; rrc=$?
      sig=$(echo "$out" | sed -n 's/^violation: run=[0-9]* signature=\(.*\) class=.*/\1/p' | head -1)
      if [ $rrc -eq 1 ]; then echo "CAUGHT  $c $id  [$sig]"; else echo "CAUGHT-BUT-REPLAY-PASSES $c $id"; fail=1; fi
      [ $SAVE -eq 1 ] && cp "$rp" "findings/${id}-fixed-${c}.json"
    else
      echo "MISSED  $c $id (exit $rc)"; fail=1
    fi
  done
  git -C "$REPO" revert --abort >/dev/null 2>&1; git -C "$REPO" reset -q --hard HEAD
done
exit $fail
