#!/usr/bin/env python3
"""Updates result.detected_by in /verif/seeded/*/meta.json (and selftest/mutants) from the CAUGHT lines of seeded.sh logs."""
import json, re, sys, os
for log in sys.argv[1:]:
    for l in open(log):
        m = re.match(r'CAUGHT\s+(\S+) \((\w+)\): (.*)', l.strip())
        if not m:
            continue
        name, det = m.group(1), m.group(3)
        for base in ('/verif/seeded', '/verif/selftest/mutants'):
            p = os.path.join(base, name, 'meta.json')
            if os.path.exists(p):
                d = json.load(open(p))
                r = d.get('result')
                if isinstance(r, dict):
                    if r.get('detected_by') != det:
                        r['detected_by'] = det
                        json.dump(d, open(p, 'w'), indent=1)
                        print('updated', name)
