#!/bin/bash
# ingest_round6.sh <WHO> <worktree>: confirm each m<k> (and extra_*) of a round-6 sub-agent, copy it to /verif/seeded/<property>-r10<who><k>
WHO=$1; WT=$2; OUT=/tmp/mut/out13/$WHO
for d in $OUT/m* $OUT/extra_*; do
  [ -f $d/patch.diff ] || continue
  k=$(basename $d | sed 's/^m//; s/extra_.*/x/')
  prop=$(head -1 $d/notes.md | sed -n 's/.*PROPERTY: *\(C[0-9][0-9]\).*/\1/p')
  [ -z "$prop" ] && prop=$(grep -m1 -o "C[0-9][0-9]" $d/notes.md)
  /verif/selftest/confirm_seeded.sh $WT $d
  t=/verif/seeded/$prop-r12$(echo $WHO | tr 'A-Z' 'a-z')$k; mkdir -p $t
  cp $d/patch.diff $d/demo.rs $d/notes.md $t/
  echo "{\"property\": \"$prop\", \"status\": \"unconfirmed\", \"round\": 5, \"theme\": \"$WHO\"}" > $t/meta.json
done
