#!/bin/bash
# Thorough tier of the listed checks (used with `vp run --with-repo` after a change that touches only some scenarios).
cd "$(dirname "$0")/.."
if [ -n "${VP_RUN_REPO:-}" ]; then sed -i "s#path = \"/repo\"#path = \"$VP_RUN_REPO\"#" sim/Cargo.toml; fi
for id in "$@"; do
  echo "=== $id thorough $(date +%T)"
  VERIF_NO_EVIDENCE=1 VERIF_LIST_ALL=1 ./check $id thorough 2>&1 | grep -vE "^\s+\|" | tail -25
done
echo "=== done $(date +%T)"
