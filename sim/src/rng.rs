//! The only source of randomness in the simulator: splitmix64 seeding a xoshiro256** stream.
//! One run seed decides the swarm configuration, every scheduling choice, argument and fault.

pub fn splitmix64(state: &mut u64) -> u64 {
    *state = state.wrapping_add(0x9E3779B97F4A7C15);
    let mut z = *state;
    z = (z ^ (z >> 30)).wrapping_mul(0xBF58476D1CE4E5B9);
    z = (z ^ (z >> 27)).wrapping_mul(0x94D049BB133111EB);
    z ^ (z >> 31)
}

pub fn fnv1a(data: &[u8]) -> u64 {
    let mut h: u64 = 0xcbf29ce484222325;
    for b in data {
        h ^= *b as u64;
        h = h.wrapping_mul(0x100000001b3);
    }
    h
}

/// Incremental FNV-1a used for event-log digests and schedule fingerprints.
#[derive(Clone, Copy)]
pub struct Fnv(pub u64);
impl Fnv {
    pub fn new() -> Fnv {
        Fnv(0xcbf29ce484222325)
    }
    pub fn bytes(&mut self, data: &[u8]) {
        for b in data {
            self.0 ^= *b as u64;
            self.0 = self.0.wrapping_mul(0x100000001b3);
        }
        // separator so that ("ab","c") != ("a","bc")
        self.0 ^= 0xff;
        self.0 = self.0.wrapping_mul(0x100000001b3);
    }
    pub fn str(&mut self, s: &str) {
        self.bytes(s.as_bytes())
    }
    pub fn u64(&mut self, v: u64) {
        self.bytes(&v.to_le_bytes())
    }
}

pub fn run_seed(verif_seed: u64, scenario: &str, run: u64) -> u64 {
    let mut s = verif_seed ^ fnv1a(scenario.as_bytes()) ^ run.wrapping_mul(0xD1B54A32D192ED03);
    splitmix64(&mut s)
}

#[derive(Clone)]
pub struct Rng {
    s: [u64; 4],
    pub draws: u64,
}

impl Rng {
    pub fn new(seed: u64) -> Rng {
        let mut st = seed;
        let s = [splitmix64(&mut st), splitmix64(&mut st), splitmix64(&mut st), splitmix64(&mut st)];
        Rng { s, draws: 0 }
    }
    pub fn next(&mut self) -> u64 {
        self.draws += 1;
        let result = self.s[1].wrapping_mul(5).rotate_left(7).wrapping_mul(9);
        let t = self.s[1] << 17;
        self.s[2] ^= self.s[0];
        self.s[3] ^= self.s[1];
        self.s[1] ^= self.s[2];
        self.s[0] ^= self.s[3];
        self.s[2] ^= t;
        self.s[3] = self.s[3].rotate_left(45);
        result
    }
    /// uniform in [0, n)
    pub fn below(&mut self, n: u64) -> u64 {
        if n <= 1 {
            return 0;
        }
        // multiply-shift; bias negligible for our n
        ((self.next() as u128 * n as u128) >> 64) as u64
    }
    pub fn range(&mut self, lo: u64, hi_incl: u64) -> u64 {
        lo + self.below(hi_incl - lo + 1)
    }
    pub fn usize(&mut self, n: usize) -> usize {
        self.below(n as u64) as usize
    }
    /// true with probability num/den
    pub fn chance(&mut self, num: u64, den: u64) -> bool {
        self.below(den) < num
    }
    pub fn pick<'a, T>(&mut self, xs: &'a [T]) -> &'a T {
        &xs[self.usize(xs.len())]
    }
    pub fn bytes(&mut self, n: usize) -> Vec<u8> {
        let mut v = Vec::with_capacity(n);
        while v.len() < n {
            let w = self.next().to_le_bytes();
            let take = (n - v.len()).min(8);
            v.extend_from_slice(&w[..take]);
        }
        v
    }
    /// weighted choice: returns index
    pub fn weighted(&mut self, weights: &[u32]) -> usize {
        let total: u64 = weights.iter().map(|w| *w as u64).sum();
        if total == 0 {
            return 0;
        }
        let mut x = self.below(total);
        for (i, w) in weights.iter().enumerate() {
            if x < *w as u64 {
                return i;
            }
            x -= *w as u64;
        }
        weights.len() - 1
    }
    pub fn shuffle<T>(&mut self, xs: &mut [T]) {
        for i in (1..xs.len()).rev() {
            let j = self.usize(i + 1);
            xs.swap(i, j);
        }
    }
}
