//! C11 — scenario `ecies-net`: Alice and Bob run the real library, RefPeer is an independent BIE1
//! implementation, Mallory is the channel. Ephemeral sender keys come from the scripted entropy
//! seam, so the peer can compute the very ciphertext the library must emit.

use crate::core::*;
use crate::refimpl as rf;
use crate::rng::Rng;
use bsv::verif_hooks;
use bsv::{ECIESCiphertext, PrivateKey, PublicKey, ECIES};
use serde_json::{json, Value};

pub struct EciesNet;

const N_MINUS_1: &str = "fffffffffffffffffffffffffffffffebaaedce6af48a03bbfd25e8cd0364140";
const N_MINUS_2: &str = "fffffffffffffffffffffffffffffffebaaedce6af48a03bbfd25e8cd036413f";

fn gen_key(rng: &mut Rng) -> String {
    match rng.below(8) {
        0 => format!("{:064x}", 1),
        1 => format!("{:064x}", 2),
        2 => N_MINUS_1.to_string(),
        3 => N_MINUS_2.to_string(),
        _ => {
            let mut b = rng.bytes(32);
            b[0] &= 0x7f;
            b[31] |= 1;
            hx(&b)
        }
    }
}

fn entropy_script(rng: &mut Rng) -> (Vec<u8>, usize, &'static str) {
    // (script bytes, number of leading rejected candidates, kind)
    let good = |rng: &mut Rng| -> Vec<u8> {
        match rng.below(4) {
            0 => hex::decode(N_MINUS_1).unwrap(),
            1 => {
                let mut v = vec![0u8; 32];
                v[31] = 1;
                v
            }
            _ => {
                let mut b = rng.bytes(32);
                b[0] &= 0x7f;
                b[31] |= 1;
                b
            }
        }
    };
    let bad = |rng: &mut Rng| -> Vec<u8> {
        match rng.below(4) {
            0 => vec![0u8; 32],
            1 => vec![0xffu8; 32],
            2 => hex::decode(rf::N_HEX).unwrap(),
            _ => {
                let mut b = hex::decode(rf::N_HEX).unwrap();
                b[31] = b[31].wrapping_add(1 + rng.below(100) as u8);
                b
            }
        }
    };
    let k = match rng.below(6) {
        0 => 1,
        1 => 2,
        2 => 3,
        _ => 0,
    };
    let mut s = vec![];
    for _ in 0..k {
        s.extend(bad(rng));
    }
    s.extend(good(rng));
    (s, k, if k == 0 { "entropy:uniform" } else { "entropy:k_bad_then_good" })
}

struct Packet {
    wire: Vec<u8>,
    msg: Vec<u8>,
    /// the sender's public key (compressed) and the wire bytes as they left the sender
    sender_pub: Vec<u8>,
    pristine: Vec<u8>,
    recipient_secret: Vec<u8>,
    has_key: bool,
    from_bsv: bool,
    /// a parsed ciphertext object somebody still holds, with the wire bytes it was parsed from
    held: Option<(Vec<u8>, ECIESCiphertext)>,
    /// region of every flip applied so far
    flips: Vec<&'static str>,
    deliveries: u32,
}

fn region(pos: usize, len: usize, has_key: bool) -> &'static str {
    if pos < 4 {
        "magic"
    } else if has_key && pos < 37 {
        "pubkey"
    } else if pos >= len.saturating_sub(32) {
        "mac"
    } else {
        "body"
    }
}

impl Scenario for EciesNet {
    fn info(&self) -> ScenarioInfo {
        ScenarioInfo {
            property: "C11",
            name: "ecies-net",
            rule: "one case = one seeded exchange history of 2-8 events between a real sender, a real recipient, an independent BIE1 peer and a corrupting channel: send (sender in {bsv, ref}; mode in {explicit key, ephemeral key drawn from the scripted OS-entropy seam with 0-3 rejected candidates first, exclude-pubkey, PrivateKey::encrypt_message, PublicKey::encrypt_message}; keys biased to 1, 2, n-1, n-2; message lengths 0, every residue mod 16 around 1-4 blocks, up to 32 KiB), channel faults (single-bit flip in magic / embedded key / body / MAC, replay), deliver (recipient in {bsv, ref}; sender key known out of band or taken from the ciphertext; right key, wrong recipient key or wrong sender key); non-trivial = a channel fault, misdelivery, replay or scripted entropy draw fired; distinct = fingerprint of (sender, mode, len mod 16 class, fault region, recipient, keying, key) sequence",
            abstract_state: "(sender impl, mode, message-length class, flipped region or none, recipient impl, keying mode, key correctness)",
            real: &["bsv::ECIES::{encrypt, encrypt_with_ephemeral_private_key, decrypt, derive_cipher_keys}", "bsv::ECIESCiphertext::{to_bytes, from_bytes, extract_public_key}", "bsv::PrivateKey::{encrypt_message, decrypt_message, from_random via the entropy hook}", "bsv::PublicKey::encrypt_message"],
            stub: &["RefPeer: BIE1 written against k256 point arithmetic, sha2, a hand-written AES-128-CBC/PKCS7 over the aes block cipher and textbook HMAC-SHA256", "entropy source = script installed through the cfg(bsv_verif) hook", "channel = in-memory byte buffer with a fault plan"],
            assumptions: &["a flip inside the four magic bytes (which the statement does not list and the parser ignores) must yield an error or exactly the original message", "truncation/extension are not in this fault mix: the statement prescribes nothing for them and the parsing side is C09's"],
            required_probes: &["send_bsv_ephemeral", "send_ref", "flip_body", "flip_pubkey", "flip_mac", "flip_magic", "deliver_wrong_recipient", "deliver_wrong_sender", "replayed", "rejection_resample", "bsv_to_ref", "ref_to_bsv", "bsv_to_bsv", "wire_equals_peer", "ciphertext_object_reused", "cipher_keys_checked_against_reference"],
            quick_runs: 40_000,
            thorough_runs: 1500000,
            rlimit_as: 4 << 30,
            alloc_abort_is_violation: true,
        }
    }

    fn generate(&self, rng: &mut Rng, tier: Tier, _index: u64) -> Plan {
        let keys: Vec<String> = (0..3).map(|_| gen_key(rng)).collect();
        let mut events = vec![];
        let n_send = rng.range(1, 2);
        for p in 0..n_send {
            let mlen = match rng.below(10) {
                0 => 0,
                1..=5 => (rng.range(0, 4) * 16 + rng.below(16)) as usize,
                6 => *rng.pick(&[15usize, 16, 17, 31, 32, 33]),
                7 if tier == Tier::Thorough => rng.range(1000, 32768) as usize,
                8 if rng.chance(1, 6) => *rng.pick(&[4095usize, 4096, 4097, 65535, 65536]),
                _ => rng.range(0, 300) as usize,
            };
            let mode = *rng.pick(&["explicit", "explicit", "ephemeral", "ephemeral", "exclude", "exclude", "exclude", "priv_encrypt_message", "pub_encrypt_message"]);
            let sender = if mode == "explicit" || mode == "exclude" { *rng.pick(&["bsv", "bsv", "ref"]) } else { "bsv" };
            let (script, rejected, ekind) = entropy_script(rng);
            let s_idx = rng.below(3);
            let mut r_idx = rng.below(3);
            if mode == "priv_encrypt_message" {
                r_idx = s_idx;
            }
            events.push(json!({"op": "send", "pkt": p, "sender": sender, "mode": mode, "skey": keys[s_idx as usize], "rkey": keys[r_idx as usize], "r_compressed": rng.chance(2, 3), "s_uncompressed": rng.chance(1, 4),
                "msg": hx(&{
                    let mut m = rng.bytes(mlen);
                    // plaintexts whose tail looks like PKCS#7 padding (last byte 1..16, possibly a run of it)
                    if mlen > 0 && rng.chance(1, 3) {
                        let pad = rng.range(1, 16) as u8;
                        let run = (rng.range(1, 17) as usize).min(mlen);
                        for k in 0..run {
                            m[mlen - 1 - k] = pad;
                        }
                    }
                    m
                }), "entropy": hx(&script), "rejected": rejected, "ekind": ekind}));
            let n_ops = rng.range(1, 4);
            for _ in 0..n_ops {
                if rng.chance(1, 8) {
                    // a sender who knows the shared secret authenticates rubbish: genuine MAC over a body that no CBC decryption accepts
                    let bl = *rng.pick(&[0usize, 1, 15, 17, 24, 33, 40]);
                    events.push(json!({"op": "byz_packet", "skey": keys[s_idx as usize], "rkey": keys[r_idx as usize], "body": hx(&rng.bytes(bl)), "has_key": rng.chance(1, 2)}));
                }
                match rng.weighted(&[30, 55, 15]) {
                    0 => {
                        // positions are resolved against the actual wire length at execution time
                        let where_ = *rng.pick(&["magic", "pubkey", "body", "body", "mac", "mac", "any"]);
                        events.push(json!({"op": "flip", "pkt": p, "region": where_, "off": rng.below(1 << 20), "bit": rng.below(8)}));
                    }
                    1 => {
                        let key = *rng.pick(&["right", "right", "right", "wrong_recipient", "wrong_sender"]);
                        events.push(json!({"op": "deliver", "pkt": p, "recipient": *rng.pick(&["bsv", "bsv", "ref"]), "keying": *rng.pick(&["known", "from_ct"]), "key": key, "other": gen_key(rng), "via_decrypt_message": rng.chance(1, 4), "reuse_object": rng.chance(1, 2), "sender_key_uncompressed": rng.chance(1, 4)}));
                    }
                    _ => events.push(json!({"op": "deliver", "pkt": p, "recipient": "bsv", "keying": "known", "key": "right", "other": gen_key(rng), "via_decrypt_message": false, "reuse_object": rng.chance(1, 2)})),
                }
            }
            events.push(json!({"op": "deliver", "pkt": p, "recipient": *rng.pick(&["bsv", "ref"]), "keying": "known", "key": *rng.pick(&["right", "right", "wrong_sender", "wrong_recipient"]), "other": gen_key(rng), "via_decrypt_message": false, "reuse_object": rng.chance(1, 2)}));
        }
        Plan { config: json!({"packets": n_send}), events }
    }

    fn execute(&self, plan: &Plan, ctx: &mut RunCtx) {
        let mut pkts: Vec<Option<Packet>> = vec![];
        for (seq, ev) in plan.events.iter().enumerate() {
            if ctx.stopped() {
                break;
            }
            ctx.seq = seq;
            ctx.crumb(jstr(ev, "op"));
            let op = jstr(ev, "op");
            let p = jusize(ev, "pkt");
            match op {
                "send" => {
                    while pkts.len() <= p {
                        pkts.push(None);
                    }
                    let sender = jstr(ev, "sender");
                    let mode = jstr(ev, "mode").to_string();
                    let msg = jhex(ev, "msg");
                    let skey = jhex(ev, "skey");
                    let rkey = jhex(ev, "rkey");
                    if !rf::is_valid_secret(&skey) || !rf::is_valid_secret(&rkey) {
                        ctx.skip();
                        continue;
                    }
                    let lc = match msg.len() {
                        0 => "0".to_string(),
                        n if n > 1024 => "big".to_string(),
                        n => format!("m{}", n % 16),
                    };
                    ctx.event(seq, "send", &format!("{}/{}/{}", sender, mode, lc));
                    let r_compressed = jbool(ev, "r_compressed");
                    let rpub = rf::pubkey_of(&rkey, r_compressed).unwrap();
                    let has_key = mode != "exclude";
                    let mut sender_secret = skey.clone();
                    let wire: Vec<u8>;
                    if sender == "ref" {
                        ctx.probe("send_ref");
                        wire = rf::bie1_encrypt(&skey, &rpub, &msg, has_key).unwrap();
                    } else {
                        let sk = match PrivateKey::from_bytes(&skey) {
                            Ok(k) => k,
                            Err(_) => {
                                ctx.skip();
                                continue;
                            }
                        };
                        // round 11: the sender's private key may be one whose public key is flagged uncompressed (an uncompressed
                        // WIF, compress_public_key(false)); BIE1 embeds and authenticates the compressed sender key whatever the flag
                        let sk = if jbool(ev, "s_uncompressed") {
                            ctx.probe("sender_private_key_flagged_uncompressed");
                            sk.compress_public_key(false)
                        } else {
                            sk
                        };
                        let rk_pub = match PublicKey::from_bytes(&rpub) {
                            Ok(k) => k,
                            Err(_) => {
                                ctx.skip();
                                continue;
                            }
                        };
                        let script = jhex(ev, "entropy");
                        let rejected = jusize(ev, "rejected");
                        let res: Result<Result<ECIESCiphertext, String>, PanicInfo>;
                        let mut drawn = None;
                        match mode.as_str() {
                            "ephemeral" => {
                                ctx.probe("send_bsv_ephemeral");
                                ctx.fault(jstr(ev, "ekind"));
                                if rejected > 0 {
                                    ctx.probe("rejection_resample");
                                }
                                verif_hooks::install_entropy(&script, 0x5eed);
                                res = guard(|| ECIES::encrypt_with_ephemeral_private_key(&msg, &rk_pub).map_err(|e| e.to_string()));
                                drawn = verif_hooks::uninstall_entropy();
                                // which key the library derives from its draw is its own business; the shipped code takes the
                                // first candidate that is a valid scalar, which is recorded as a probe below
                                sender_secret = vec![];
                            }
                            "exclude" => res = guard(|| ECIES::encrypt(&msg, &sk, &rk_pub, true).map_err(|e| e.to_string())),
                            "priv_encrypt_message" => res = guard(|| sk.encrypt_message(&msg).map_err(|e| e.to_string())),
                            "pub_encrypt_message" => res = guard(|| rk_pub.encrypt_message(&msg, &sk).map_err(|e| e.to_string())),
                            _ => res = guard(|| ECIES::encrypt(&msg, &sk, &rk_pub, false).map_err(|e| e.to_string())),
                        }
                        let ct = match res {
                            Ok(Ok(c)) => c,
                            Ok(Err(e)) => {
                                if ctx.violate("reject", format!("encrypt-failed:{}", mode), format!("encrypt ({}) with valid keys failed: {}", mode, e)) {
                                    return;
                                }
                                continue;
                            }
                            Err(pn) => {
                                if ctx.violate("panic", format!("panic@{}#encrypt {}", site_file(&pn.site), mode), format!("{}: {}", pn.site, pn.msg)) {
                                    return;
                                }
                                continue;
                            }
                        };
                        wire = ct.to_bytes();
                        // for priv_encrypt_message the recipient is the sender's own key (compressed flag of PrivateKey::from_bytes)
                        let (eff_rpub, eff_rsecret) = if mode == "priv_encrypt_message" { (rf::pubkey_of(&skey, true).unwrap(), skey.clone()) } else { (rpub.clone(), rkey.clone()) };
                        if mode == "ephemeral" {
                            // entropy accounting is recorded, not judged (the statement does not prescribe a sampling method)
                            if let Some((d, _calls)) = &drawn {
                                ctx.probe(if d.len() == (rejected + 1) * 32 { "ephemeral_drew_32_bytes_per_candidate" } else { "ephemeral_drew_other_amount" });
                            }
                        }
                        // E2: byte-identical to the independently computed BIE1 construction
                        if mode == "ephemeral" {
                            // the sender key is whatever the ciphertext carries; the standard construction is checked from the
                            // recipient's side: an independent BIE1 peer holding the recipient key must recover the message
                            ctx.probe("wire_equals_peer");
                            match rf::bie1_decrypt(&eff_rsecret, None, &wire, true) {
                                Ok(pt) if pt == msg => {
                                    let good = &script[rejected * 32..(rejected * 32 + 32).min(script.len())];
                                    if rf::pubkey_of(good, true).map(|p| p.as_slice() == &wire[4..37]).unwrap_or(false) {
                                        ctx.probe("ephemeral_key_is_first_valid_candidate");
                                    }
                                }
                                other => {
                                    if ctx.violate("mismatch", "ephemeral-ciphertext-not-BIE1".into(), format!("an independent BIE1 peer holding the recipient key cannot open the ephemeral-key ciphertext: {:?}", other.map(|p| p.len()))) {
                                        return;
                                    }
                                }
                            }
                        } else if rf::is_valid_secret(&sender_secret) {
                            let want = rf::bie1_encrypt(&sender_secret, &eff_rpub, &msg, has_key).unwrap();
                            ctx.probe("wire_equals_peer");
                            if wire != want {
                                let at = wire.iter().zip(want.iter()).position(|(a, b)| a != b).unwrap_or(wire.len().min(want.len()));
                                if ctx.violate("mismatch", format!("wire-differs-from-BIE1:{} in {}", mode, region(at, want.len(), has_key)), format!("serialised ciphertext ({} bytes) differs from the reference construction ({} bytes) first at offset {} [{}]", wire.len(), want.len(), at, region(at, want.len(), has_key))) {
                                    return;
                                }
                            }
                        }
                        // the key schedule itself, from either side: (iv, kE, kM) = SHA-512(compressed ECDH point) split 16/16/32
                        if rf::is_valid_secret(&sender_secret) && mode != "priv_encrypt_message" {
                            if let Some(want) = rf::bie1_keys(&sender_secret, &eff_rpub) {
                                let sides: [(&str, Vec<u8>, Vec<u8>); 2] = [("sender", sender_secret.clone(), eff_rpub.clone()), ("recipient", eff_rsecret.clone(), rf::pubkey_of(&sender_secret, r_compressed).unwrap_or_default())];
                                for (side, secret, public) in sides.iter() {
                                    let got = guard(|| -> Result<(Vec<u8>, Vec<u8>, Vec<u8>), String> {
                                        let a = PrivateKey::from_bytes(secret).map_err(|e| e.to_string())?;
                                        let b = PublicKey::from_bytes(public).map_err(|e| e.to_string())?;
                                        let k = ECIES::derive_cipher_keys(&a, &b).map_err(|e| e.to_string())?;
                                        Ok((k.get_iv(), k.get_ke(), k.get_km()))
                                    });
                                    ctx.probe("cipher_keys_checked_against_reference");
                                    match got {
                                        Ok(Ok((iv, ke, km))) => {
                                            if iv != want.iv || ke != want.ke || km != want.km {
                                                if ctx.violate("mismatch", format!("cipher-keys-differ-from-BIE1:{} side", side), format!("ECIES::derive_cipher_keys on the {} side gives iv={} kE={} kM={}, the reference key schedule iv={} kE={} kM={}", side, hx(&iv), hx(&ke), hx(&km), hx(&want.iv), hx(&want.ke), hx(&want.km))) {
                                                    return;
                                                }
                                            }
                                        }
                                        Ok(Err(e)) => {
                                            if ctx.violate("reject", format!("derive-cipher-keys-failed:{} side", side), format!("derive_cipher_keys with valid keys failed: {}", e)) {
                                                return;
                                            }
                                        }
                                        Err(pn) => {
                                            if ctx.violate("panic", format!("panic@{}#derive_cipher_keys", site_file(&pn.site)), format!("{}: {}", pn.site, pn.msg)) {
                                                return;
                                            }
                                        }
                                    }
                                }
                                if let Ok(Some(k)) = guard(|| ct.get_cipher_keys()) {
                                    ctx.probe("ciphertext_object_carries_cipher_keys");
                                    if k.get_iv() != want.iv || k.get_ke() != want.ke || k.get_km() != want.km {
                                        if ctx.violate("mismatch", "cipher-keys-differ-from-BIE1:ciphertext object".into(), "the keys carried by the ciphertext object are not the reference key schedule".into()) {
                                            return;
                                        }
                                    }
                                }
                            }
                        }
                        let held = Some((wire.clone(), ct));
                        let sender_pub = if mode == "ephemeral" { wire[4..37.min(wire.len())].to_vec() } else { rf::pubkey_of(&sender_secret, true).unwrap_or_default() };
                        pkts[p] = Some(Packet { pristine: wire.clone(), wire, msg, sender_pub, recipient_secret: eff_rsecret, has_key, from_bsv: true, held, flips: vec![], deliveries: 0 });
                        continue;
                    }
                    let sender_pub = rf::pubkey_of(&sender_secret, true).unwrap_or_default();
                    pkts[p] = Some(Packet { pristine: wire.clone(), wire, msg, sender_pub, recipient_secret: rkey, has_key, from_bsv: false, held: None, flips: vec![], deliveries: 0 });
                }
                "byz_packet" => {
                    // what the receiver answers to authenticated rubbish is not in the statement (no panic is); what matters is that
                    // the deliveries after it are judged as if it had never arrived
                    let (skey, rkey, body, has_key) = (jhex(ev, "skey"), jhex(ev, "rkey"), jhex(ev, "body"), jbool(ev, "has_key"));
                    if !rf::is_valid_secret(&skey) || !rf::is_valid_secret(&rkey) {
                        ctx.skip();
                        continue;
                    }
                    ctx.event(seq, "byz_packet", "");
                    ctx.fault("byzantine-sender");
                    let rpub = rf::pubkey_of(&rkey, true).unwrap();
                    let spub = rf::pubkey_of(&skey, true).unwrap();
                    let keys = match rf::bie1_keys(&skey, &rpub) {
                        Some(k) => k,
                        None => continue,
                    };
                    let mut wire = b"BIE1".to_vec();
                    if has_key {
                        wire.extend(&spub);
                    }
                    wire.extend(&body);
                    let mac = crate::scen_digest::ref_hmac("sha256", &keys.km, &wire);
                    wire.extend(mac);
                    let r = guard(|| -> Result<Vec<u8>, String> {
                        let ct = ECIESCiphertext::from_bytes(&wire, has_key).map_err(|e| e.to_string())?;
                        let rk = PrivateKey::from_bytes(&rkey).map_err(|e| e.to_string())?;
                        let sp = PublicKey::from_bytes(&spub).map_err(|e| e.to_string())?;
                        ECIES::decrypt(&ct, &rk, &sp).map_err(|e| e.to_string())
                    });
                    match r {
                        Ok(Ok(_)) => ctx.probe("authenticated_rubbish_decrypted"),
                        Ok(Err(_)) => ctx.probe("authenticated_rubbish_refused"),
                        Err(pn) => {
                            if ctx.violate("panic", format!("panic@{}#decrypt authenticated rubbish", site_file(&pn.site)), format!("{}: {}", pn.site, pn.msg)) {
                                return;
                            }
                        }
                    }
                }
                "flip" => {
                    let pk = match pkts.get_mut(p).and_then(|x| x.as_mut()) {
                        Some(x) => x,
                        None => {
                            ctx.skip();
                            continue;
                        }
                    };
                    let len = pk.wire.len();
                    let (lo, hi) = match jstr(ev, "region") {
                        "magic" => (0, 4),
                        "pubkey" if pk.has_key => (4, 37),
                        "mac" => (len - 32, len),
                        "body" => (if pk.has_key { 37 } else { 4 }, len - 32),
                        _ => (0, len),
                    };
                    if hi <= lo {
                        ctx.skip();
                        continue;
                    }
                    let pos = lo + jusize(ev, "off") % (hi - lo);
                    pk.wire[pos] ^= 1 << (ju64(ev, "bit") % 8);
                    let r = region(pos, len, pk.has_key);
                    // flipping the same bit twice restores it: track by recomputing below
                    pk.flips.push(r);
                    ctx.event(seq, "flip", r);
                    ctx.fault(&format!("flip:{}", r));
                    ctx.probe(&format!("flip_{}", r));
                }
                "deliver" => {
                    let pk = match pkts.get_mut(p).and_then(|x| x.as_mut()) {
                        Some(x) => x,
                        None => {
                            ctx.skip();
                            continue;
                        }
                    };
                    let recipient = jstr(ev, "recipient");
                    let keying = jstr(ev, "keying");
                    let key = jstr(ev, "key");
                    if keying == "from_ct" && !pk.has_key {
                        ctx.skip();
                        continue;
                    }
                    let other = jhex(ev, "other");
                    if !rf::is_valid_secret(&other) || other == pk.recipient_secret || rf::pubkey_of(&other, true).map(|p| p == pk.sender_pub).unwrap_or(true) {
                        ctx.skip();
                        continue;
                    }
                    pk.deliveries += 1;
                    if pk.deliveries > 1 {
                        ctx.fault("replay");
                        ctx.probe("replayed");
                    }
                    // is the packet intact? compare with a pristine re-encryption
                    let pristine = pk.pristine.clone();
                    let damaged: Vec<&'static str> = {
                        let mut d = vec![];
                        for (i, (a, b)) in pk.wire.iter().zip(pristine.iter()).enumerate() {
                            if a != b {
                                let r = region(i, pristine.len(), pk.has_key);
                                if !d.contains(&r) {
                                    d.push(r);
                                }
                            }
                        }
                        d
                    };
                    let rsecret = if key == "wrong_recipient" { other.clone() } else { pk.recipient_secret.clone() };
                    let mut sender_pub_known = if key == "wrong_sender" { rf::pubkey_of(&other, true).unwrap() } else { pk.sender_pub.clone() };
                    if jbool(ev, "sender_key_uncompressed") && keying == "known" {
                        // the same point in its 65-byte encoding: an out-of-band key is a point, not a byte string
                        if let Some(p) = rf::point_from_sec1(&sender_pub_known) {
                            sender_pub_known = rf::point_sec1(&p, false);
                            ctx.probe("sender_key_presented_uncompressed");
                        }
                    }
                    if key == "wrong_recipient" {
                        ctx.fault("misdeliver:recipient");
                        ctx.probe("deliver_wrong_recipient");
                    }
                    if key == "wrong_sender" && keying == "known" {
                        ctx.fault("misdeliver:sender");
                        ctx.probe("deliver_wrong_sender");
                    }
                    let dmg = if damaged.is_empty() { "intact".to_string() } else { damaged.join("+") };
                    ctx.event(seq, "deliver", &format!("{}/{}/{}/{}", recipient, keying, key, dmg));
                    ctx.state(&[crate::rng::fnv1a(recipient.as_bytes()), crate::rng::fnv1a(keying.as_bytes()), crate::rng::fnv1a(key.as_bytes()), crate::rng::fnv1a(dmg.as_bytes()), pk.has_key as u64, (pk.msg.len() % 16) as u64]);
                    // what the statement demands
                    let key_ok = key == "right" || (key == "wrong_sender" && keying == "from_ct");
                    let only_magic = !damaged.is_empty() && damaged.iter().all(|r| *r == "magic");
                    let must_succeed = key_ok && damaged.is_empty();
                    let must_fail = !key_ok || (!damaged.is_empty() && !only_magic);
                    let outcome: Result<Vec<u8>, String> = if recipient == "ref" {
                        ctx.probe(if pk.from_bsv { "bsv_to_ref" } else { "ref_to_ref" });
                        rf::bie1_decrypt(&rsecret, if keying == "known" { Some(&sender_pub_known) } else { None }, &pk.wire, pk.has_key).map_err(|e| e.to_string())
                    } else {
                        let wire = pk.wire.clone();
                        let has_key = pk.has_key;
                        let via_dm = jbool(ev, "via_decrypt_message");
                        // the same parsed object may be opened several times (by the sender, by a recipient who keeps it)
                        let use_held = jbool(ev, "reuse_object") && pk.held.as_ref().map(|h| h.0 == wire).unwrap_or(false);
                        let mut fresh: Option<ECIESCiphertext> = None;
                        let mut early: Option<Result<Vec<u8>, String>> = None;
                        if use_held {
                            ctx.probe("ciphertext_object_reused");
                            ctx.nontrivial = true;
                        } else {
                            match guard(|| ECIESCiphertext::from_bytes(&wire, has_key).map_err(|e| e.to_string()).and_then(|ct| ECIESCiphertext::from_bytes(&ct.to_bytes(), has_key).map_err(|e| e.to_string()))) {
                                Ok(Ok(c)) => fresh = Some(c),
                                Ok(Err(e)) => early = Some(Err(e)),
                                Err(pn) => {
                                    if ctx.violate("panic", format!("panic@{}#from_bytes", site_file(&pn.site)), format!("{}: {}", pn.site, pn.msg)) {
                                        return;
                                    }
                                    continue;
                                }
                            }
                        }
                        let r = match early {
                            Some(e) => Ok(e),
                            None => {
                                let ct: &ECIESCiphertext = if use_held { &pk.held.as_ref().unwrap().1 } else { fresh.as_ref().unwrap() };
                                guard(|| -> Result<Vec<u8>, String> {
                                    let rk = PrivateKey::from_bytes(&rsecret).map_err(|e| e.to_string())?;
                                    let sp = if keying == "known" { PublicKey::from_bytes(&sender_pub_known).map_err(|e| e.to_string())? } else { ct.extract_public_key().map_err(|e| e.to_string())? };
                                    if via_dm {
                                        rk.decrypt_message(ct, &sp).map_err(|e| e.to_string())
                                    } else {
                                        ECIES::decrypt(ct, &rk, &sp).map_err(|e| e.to_string())
                                    }
                                })
                            }
                        };
                        if let Some(f) = fresh {
                            pk.held = Some((wire.clone(), f));
                        }
                        match r {
                            Ok(x) => x,
                            Err(pn) => {
                                if ctx.violate("panic", format!("panic@{}#decrypt", site_file(&pn.site)), format!("{}: {}", pn.site, pn.msg)) {
                                    return;
                                }
                                continue;
                            }
                        }
                    };
                    if recipient == "bsv" {
                        ctx.probe(if pk.from_bsv { "bsv_to_bsv" } else { "ref_to_bsv" });
                    }
                    match &outcome {
                        Ok(pt) => {
                            ctx.observe(pt);
                            if must_fail {
                                if ctx.violate("accept", format!("decrypt-accepted:{} key={} damage={}", recipient, key, dmg), format!("decryption returned {} bytes of plaintext although key={} keying={} damage={}", pt.len(), key, keying, dmg)) {
                                    return;
                                }
                            } else if *pt != pk.msg {
                                if ctx.violate("mismatch", format!("plaintext-differs:{} damage={}", recipient, dmg), format!("decrypted {} bytes != original {} bytes", pt.len(), pk.msg.len())) {
                                    return;
                                }
                            }
                        }
                        Err(e) => {
                            ctx.observe_str("err");
                            if must_succeed {
                                if ctx.violate("reject", format!("decrypt-rejected:{} keying={}", recipient, keying), format!("intact ciphertext with matching keys was rejected by {}: {}", recipient, e)) {
                                    return;
                                }
                            }
                        }
                    }
                }
                _ => ctx.skip(),
            }
        }
        let _ = verif_hooks::uninstall_entropy();
    }

    fn shrink_event(&self, ev: &Event) -> Vec<Event> {
        let mut out = vec![];
        if jstr(ev, "op") == "send" {
            let m = jhex(ev, "msg");
            if !m.is_empty() {
                let mut e = ev.clone();
                e["msg"] = json!(hx(&m[..m.len() / 2]));
                out.push(e);
                let mut e = ev.clone();
                e["msg"] = json!("");
                out.push(e);
            }
            for k in ["skey", "rkey"] {
                let mut e = ev.clone();
                e[k] = json!(format!("{:064x}", if k == "skey" { 1 } else { 2 }));
                out.push(e);
            }
            if jstr(ev, "mode") != "explicit" {
                let mut e = ev.clone();
                e["mode"] = json!("explicit");
                out.push(e);
            }
        }
        if jstr(ev, "op") == "deliver" && jbool(ev, "via_decrypt_message") {
            let mut e = ev.clone();
            e["via_decrypt_message"] = json!(false);
            out.push(e);
        }
        let _ = Value::Null;
        out
    }
}
