//! Simulator-owned seams that need no hook in the library: process stdout (fd 1) and the heap.

use std::alloc::{GlobalAlloc, Layout, System};
use std::io::Write;
use std::sync::atomic::{AtomicBool, AtomicUsize, Ordering};

// ---------------------------------------------------------------------------------------------
// S-OUT: fd 1

static mut SAVED_NULL: i32 = -1;

fn open_path(p: &str, flags: i32) -> i32 {
    let c = std::ffi::CString::new(p).unwrap();
    unsafe { libc::open(c.as_ptr(), flags) }
}

/// Healthy sink: everything the library prints goes to /dev/null.
pub fn stdout_to_devnull() {
    unsafe {
        if SAVED_NULL < 0 {
            SAVED_NULL = open_path("/dev/null", libc::O_WRONLY);
        }
        libc::dup2(SAVED_NULL, 1);
    }
}

#[derive(Clone, Copy, Debug, PartialEq, Eq)]
pub enum StdoutFault {
    /// write(2) fails with ENOSPC (full disk): fd 1 := /dev/full
    Enospc,
    /// write(2) fails with EPIPE: pipe whose read end is closed (SIGPIPE ignored, as in any Rust binary)
    Epipe,
    /// non-blocking pipe that accepts `n` more bytes, then EAGAIN (stalled reader)
    Eagain(usize),
    /// fd 1 closed: EBADF, which Rust's stdout treats as success (control: must not alarm)
    Ebadf,
}

impl StdoutFault {
    pub fn name(&self) -> &'static str {
        match self {
            StdoutFault::Enospc => "stdout:enospc",
            StdoutFault::Epipe => "stdout:epipe",
            StdoutFault::Eagain(_) => "stdout:eagain",
            StdoutFault::Ebadf => "stdout:ebadf",
        }
    }
    pub fn parse(s: &str, n: usize) -> Option<StdoutFault> {
        match s {
            "enospc" => Some(StdoutFault::Enospc),
            "epipe" => Some(StdoutFault::Epipe),
            "eagain" => Some(StdoutFault::Eagain(n)),
            "ebadf" => Some(StdoutFault::Ebadf),
            _ => None,
        }
    }
}

static mut EAGAIN_READ_END: i32 = -1;

/// Arm a fault on fd 1. Returns false if the environment could not provide it.
pub fn stdout_fault(f: StdoutFault) -> bool {
    // flush whatever std buffered while healthy so the fault hits library output only
    let _ = std::io::stdout().flush();
    unsafe {
        match f {
            StdoutFault::Enospc => {
                let fd = open_path("/dev/full", libc::O_WRONLY);
                if fd < 0 {
                    return false;
                }
                libc::dup2(fd, 1);
                libc::close(fd);
                true
            }
            StdoutFault::Epipe => {
                let mut fds = [0i32; 2];
                if libc::pipe(fds.as_mut_ptr()) != 0 {
                    return false;
                }
                libc::close(fds[0]);
                libc::dup2(fds[1], 1);
                libc::close(fds[1]);
                true
            }
            StdoutFault::Eagain(n) => {
                let mut fds = [0i32; 2];
                if libc::pipe2(fds.as_mut_ptr(), libc::O_NONBLOCK) != 0 {
                    return false;
                }
                // shrink to one page where allowed, then fill until EAGAIN and drain n bytes
                libc::fcntl(fds[1], libc::F_SETPIPE_SZ, 4096);
                let buf = [0u8; 512];
                loop {
                    let r = libc::write(fds[1], buf.as_ptr() as *const libc::c_void, buf.len());
                    if r < 0 {
                        break;
                    }
                }
                loop {
                    let r = libc::write(fds[1], buf.as_ptr() as *const libc::c_void, 1);
                    if r < 0 {
                        break;
                    }
                }
                // a pipe only frees space in whole pages; draining a full page plus refill leaves n bytes
                let mut drained = 0usize;
                let mut rb = [0u8; 4096];
                while drained < 4096 {
                    let r = libc::read(fds[0], rb.as_mut_ptr() as *mut libc::c_void, 4096 - drained);
                    if r <= 0 {
                        break;
                    }
                    drained += r as usize;
                }
                let refill = drained.saturating_sub(n.min(drained));
                let mut left = refill;
                while left > 0 {
                    let k = left.min(512);
                    let r = libc::write(fds[1], buf.as_ptr() as *const libc::c_void, k);
                    if r <= 0 {
                        break;
                    }
                    left -= r as usize;
                }
                if EAGAIN_READ_END >= 0 {
                    libc::close(EAGAIN_READ_END);
                }
                EAGAIN_READ_END = fds[0];
                libc::dup2(fds[1], 1);
                libc::close(fds[1]);
                true
            }
            StdoutFault::Ebadf => {
                libc::close(1);
                true
            }
        }
    }
}

/// Heal fd 1: back to the healthy sink; drop whatever std still buffers.
pub fn stdout_heal() {
    stdout_to_devnull();
    unsafe {
        if EAGAIN_READ_END >= 0 {
            libc::close(EAGAIN_READ_END);
            EAGAIN_READ_END = -1;
        }
    }
    let _ = std::io::stdout().flush();
}

// ---------------------------------------------------------------------------------------------
// S-MEM: counting allocator with an optional budget. A request that would lift live bytes above
// the budget is refused (null), which makes Rust abort the process exactly as a machine without
// that much memory would; the parent attributes the death to the run and the breadcrumb.

pub struct SimAlloc;

static LIVE: AtomicUsize = AtomicUsize::new(0);
static PEAK: AtomicUsize = AtomicUsize::new(0);
static BUDGET: AtomicUsize = AtomicUsize::new(usize::MAX);
static LARGEST: AtomicUsize = AtomicUsize::new(0);
static TRACK: AtomicBool = AtomicBool::new(false);
static REFUSED: AtomicUsize = AtomicUsize::new(0);

#[inline]
fn on_alloc(size: usize) -> bool {
    if !TRACK.load(Ordering::Relaxed) {
        return true;
    }
    let live = LIVE.load(Ordering::Relaxed);
    let new = live.saturating_add(size);
    if new > BUDGET.load(Ordering::Relaxed) {
        REFUSED.store(size, Ordering::Relaxed);
        return false;
    }
    LIVE.store(new, Ordering::Relaxed);
    if new > PEAK.load(Ordering::Relaxed) {
        PEAK.store(new, Ordering::Relaxed);
    }
    if size > LARGEST.load(Ordering::Relaxed) {
        LARGEST.store(size, Ordering::Relaxed);
    }
    true
}

#[inline]
fn on_free(size: usize) {
    if !TRACK.load(Ordering::Relaxed) {
        return;
    }
    let live = LIVE.load(Ordering::Relaxed);
    LIVE.store(live.saturating_sub(size), Ordering::Relaxed);
}

unsafe impl GlobalAlloc for SimAlloc {
    unsafe fn alloc(&self, layout: Layout) -> *mut u8 {
        if !on_alloc(layout.size()) {
            return std::ptr::null_mut();
        }
        System.alloc(layout)
    }
    unsafe fn alloc_zeroed(&self, layout: Layout) -> *mut u8 {
        if !on_alloc(layout.size()) {
            return std::ptr::null_mut();
        }
        System.alloc_zeroed(layout)
    }
    unsafe fn dealloc(&self, ptr: *mut u8, layout: Layout) {
        on_free(layout.size());
        System.dealloc(ptr, layout)
    }
    unsafe fn realloc(&self, ptr: *mut u8, layout: Layout, new_size: usize) -> *mut u8 {
        if new_size > layout.size() {
            if !on_alloc(new_size - layout.size()) {
                return std::ptr::null_mut();
            }
        } else {
            on_free(layout.size() - new_size);
        }
        System.realloc(ptr, layout, new_size)
    }
}

/// Start measuring a call: live := 0 (relative), budget in bytes above the current level.
pub fn mem_begin(budget: usize) {
    LIVE.store(0, Ordering::Relaxed);
    PEAK.store(0, Ordering::Relaxed);
    LARGEST.store(0, Ordering::Relaxed);
    BUDGET.store(budget, Ordering::Relaxed);
    TRACK.store(true, Ordering::Relaxed);
}

/// Stop measuring; returns (peak live bytes above the starting level, largest single request).
pub fn mem_end() -> (usize, usize) {
    TRACK.store(false, Ordering::Relaxed);
    BUDGET.store(usize::MAX, Ordering::Relaxed);
    (PEAK.load(Ordering::Relaxed), LARGEST.load(Ordering::Relaxed))
}
