//! C15 — scenario `spend-net`: several parties build, sign, finalise, mutate, ship and validate one
//! shared spending transaction. What a sighash flag *means* is which later changes invalidate a
//! signature, so acceptance "exactly when valid" is a statement about interleavings of sign and
//! mutate calls. The model keeps, for every signature, the covered view (the tuple of fields its
//! flag commits to) at signing time and compares it with the covered view at validation time.

use crate::core::*;
use crate::refimpl as rf;
use crate::rng::Rng;
use crate::scen_digest::ref_hash;
use crate::scen_txhist::flag_name;
use bsv::{Interpreter, P2PKHAddress, PrivateKey, PublicKey, Script, SigHash, SighashSignature, Transaction, TxIn, TxOut};
use serde_json::{json, Value};

pub struct SpendNet;

const STD_FLAGS: [u8; 12] = [0x41, 0x42, 0x43, 0xc1, 0xc2, 0xc3, 0x01, 0x02, 0x03, 0x81, 0x82, 0x83];
const KEYS: [&str; 5] = [
    "0000000000000000000000000000000000000000000000000000000000000001",
    "7f3b2a190817161514131211100f0e0d0c0b0a090807060504030201a1b2c3d4",
    "fffffffffffffffffffffffffffffffebaaedce6af48a03bbfd25e8cd0364140",
    "00000000000000000000000000000000000000000000000000000000deadbeef",
    "5a5a5a5a5a5a5a5a5a5a5a5a5a5a5a5a5a5a5a5a5a5a5a5a5a5a5a5a5a5a5a5a",
];

fn is_forkid(f: u8) -> bool {
    f & 0x40 != 0
}
fn is_acp(f: u8) -> bool {
    f & 0x80 != 0
}
fn base(f: u8) -> u8 {
    f & 0x1f
}

#[derive(Clone, Debug, PartialEq)]
struct MI {
    txid: Vec<u8>,
    vout: u32,
    seq: u32,
    utxo: usize,
    /// declared value currently attached to the input (extended field)
    declared: u64,
}
#[derive(Clone, Debug, PartialEq)]
struct MO {
    value: u64,
    script: Vec<u8>,
}
#[derive(Clone, Debug)]
struct MTx {
    version: u32,
    locktime: u32,
    ins: Vec<MI>,
    outs: Vec<MO>,
}

/// The covered view: which fields a signature with `flag` on input `i` commits to. Deliberately a
/// field table, not a byte-level preimage.
fn view(m: &MTx, i: usize, flag: u8, subscript: &[u8], value: u64) -> Option<Vec<u8>> {
    let own = m.ins.get(i)?;
    let mut v: Vec<u8> = vec![];
    let put = |v: &mut Vec<u8>, tag: &str, b: &[u8]| {
        v.extend_from_slice(tag.as_bytes());
        v.push(b':');
        v.extend_from_slice(&(b.len() as u32).to_le_bytes());
        v.extend_from_slice(b);
    };
    put(&mut v, "ver", &m.version.to_le_bytes());
    put(&mut v, "lock", &m.locktime.to_le_bytes());
    put(&mut v, "flag", &[flag]);
    let outp = |x: &MI| {
        let mut b = x.txid.clone();
        b.extend_from_slice(&x.vout.to_le_bytes());
        b
    };
    let outb = |o: &MO| {
        let mut b = o.value.to_le_bytes().to_vec();
        b.extend_from_slice(&o.script);
        b
    };
    put(&mut v, "own", &outp(own));
    put(&mut v, "ownseq", &own.seq.to_le_bytes());
    if is_forkid(flag) {
        put(&mut v, "sub", subscript);
        put(&mut v, "value", &value.to_le_bytes());
        if !is_acp(flag) {
            for x in &m.ins {
                put(&mut v, "prev", &outp(x));
            }
            if base(flag) == 1 {
                for x in &m.ins {
                    put(&mut v, "seq", &x.seq.to_le_bytes());
                }
            }
        }
    } else {
        // legacy: separators are stripped from the subscript, the value is not committed
        let stripped: Vec<u8> = strip_separators(subscript);
        put(&mut v, "sub", &stripped);
        if !is_acp(flag) {
            put(&mut v, "pos", &(i as u32).to_le_bytes());
            for x in &m.ins {
                put(&mut v, "prev", &outp(x));
            }
            if base(flag) == 1 {
                for x in &m.ins {
                    put(&mut v, "seq", &x.seq.to_le_bytes());
                }
            }
        }
    }
    match base(flag) {
        1 => {
            for o in &m.outs {
                put(&mut v, "out", &outb(o));
            }
            put(&mut v, "nout", &(m.outs.len() as u32).to_le_bytes());
        }
        3 => {
            let o = m.outs.get(i)?; // no matching output: the library refuses to sign
            put(&mut v, "outi", &outb(o));
            if !is_forkid(flag) {
                // the original algorithm serialises i blanked outputs in front of the signed one: the index is committed
                put(&mut v, "outidx", &(i as u32).to_le_bytes());
            }
        }
        _ => {}
    }
    Some(v)
}

fn ser_out(o: &MO) -> Vec<u8> {
    let mut b = o.value.to_le_bytes().to_vec();
    b.extend(crate::scen_txhist::varint(o.script.len() as u64));
    b.extend_from_slice(&o.script);
    b
}

fn wire_outpoint(x: &MI) -> Vec<u8> {
    let mut b = x.txid.clone();
    b.reverse();
    b.extend_from_slice(&x.vout.to_le_bytes());
    b
}

/// The specified signature-hash preimage, written from the published algorithms (replay-protected
/// "BIP143-style" digest for FORKID flags, the original algorithm for legacy flags) over the MODEL transaction.
/// Independent of every line of the library.
pub(crate) fn ref_preimage(m: &MTx, i: usize, flag: u8, subscript: &[u8], value: u64) -> Option<Vec<u8>> {
    let own = m.ins.get(i)?;
    let zero = vec![0u8; 32];
    let mut p: Vec<u8> = vec![];
    if is_forkid(flag) {
        let hash_prevouts = if !is_acp(flag) { ref_hash("sha256d", &m.ins.iter().flat_map(|x| wire_outpoint(x)).collect::<Vec<u8>>()) } else { zero.clone() };
        let hash_sequence = if !is_acp(flag) && base(flag) == 1 { ref_hash("sha256d", &m.ins.iter().flat_map(|x| x.seq.to_le_bytes().to_vec()).collect::<Vec<u8>>()) } else { zero.clone() };
        let hash_outputs = match base(flag) {
            1 => ref_hash("sha256d", &m.outs.iter().flat_map(|o| ser_out(o)).collect::<Vec<u8>>()),
            3 => ref_hash("sha256d", &ser_out(m.outs.get(i)?)),
            _ => zero.clone(),
        };
        p.extend_from_slice(&m.version.to_le_bytes());
        p.extend(hash_prevouts);
        p.extend(hash_sequence);
        p.extend(wire_outpoint(own));
        p.extend(crate::scen_txhist::varint(subscript.len() as u64));
        p.extend_from_slice(subscript);
        p.extend_from_slice(&value.to_le_bytes());
        p.extend_from_slice(&own.seq.to_le_bytes());
        p.extend(hash_outputs);
        p.extend_from_slice(&m.locktime.to_le_bytes());
        p.extend_from_slice(&(flag as u32).to_le_bytes());
    } else {
        let code = strip_separators(subscript);
        let ser_in = |x: &MI, script: &[u8], seq: u32| -> Vec<u8> {
            let mut b = wire_outpoint(x);
            b.extend(crate::scen_txhist::varint(script.len() as u64));
            b.extend_from_slice(script);
            b.extend_from_slice(&seq.to_le_bytes());
            b
        };
        p.extend_from_slice(&m.version.to_le_bytes());
        if is_acp(flag) {
            p.extend(crate::scen_txhist::varint(1));
            p.extend(ser_in(own, &code, own.seq));
        } else {
            p.extend(crate::scen_txhist::varint(m.ins.len() as u64));
            for (j, x) in m.ins.iter().enumerate() {
                if j == i {
                    p.extend(ser_in(x, &code, x.seq));
                } else {
                    let seq = if base(flag) == 1 { x.seq } else { 0 };
                    p.extend(ser_in(x, &[], seq));
                }
            }
        }
        match base(flag) {
            1 => {
                p.extend(crate::scen_txhist::varint(m.outs.len() as u64));
                for o in &m.outs {
                    p.extend(ser_out(o));
                }
            }
            3 => {
                let o = m.outs.get(i)?;
                p.extend(crate::scen_txhist::varint(i as u64 + 1));
                for _ in 0..i {
                    p.extend(ser_out(&MO { value: u64::MAX, script: vec![] }));
                }
                p.extend(ser_out(o));
            }
            _ => p.extend(crate::scen_txhist::varint(0)),
        }
        p.extend_from_slice(&m.locktime.to_le_bytes());
        p.extend_from_slice(&(flag as u32).to_le_bytes());
    }
    Some(p)
}

/// tags of the view entries that differ between two covered views
fn view_diff(a: &[u8], b: &[u8]) -> Vec<String> {
    fn parse(v: &[u8]) -> Vec<(String, Vec<u8>)> {
        let mut out = vec![];
        let mut p = 0;
        while p < v.len() {
            // tag = ascii letters up to ':' followed by the 4-byte length
            let mut q = p;
            while q < v.len() && v[q] != b':' {
                q += 1;
            }
            if q + 5 > v.len() {
                break;
            }
            let tag = String::from_utf8_lossy(&v[p..q]).to_string();
            q += 1;
            let n = u32::from_le_bytes([v[q], v[q + 1], v[q + 2], v[q + 3]]) as usize;
            let e = (q + 4 + n).min(v.len());
            out.push((tag, v[q + 4..e].to_vec()));
            p = e;
        }
        out
    }
    let (pa, pb) = (parse(a), parse(b));
    let mut tags: Vec<String> = vec![];
    let n = pa.len().max(pb.len());
    for k in 0..n {
        match (pa.get(k), pb.get(k)) {
            (Some(x), Some(y)) if x == y => {}
            (x, y) => {
                let t = x.or(y).map(|t| t.0.clone()).unwrap_or_default();
                if !tags.contains(&t) {
                    tags.push(t);
                }
            }
        }
    }
    tags
}

/// remove OP_CODESEPARATOR opcodes (outside push payloads) from script bytes
fn strip_separators(b: &[u8]) -> Vec<u8> {
    let mut out = vec![];
    let mut p = 0;
    while p < b.len() {
        let op = b[p];
        let n = match op {
            1..=75 => 1 + op as usize,
            0x4c => 2 + *b.get(p + 1).unwrap_or(&0) as usize,
            0x4d => 3 + u16::from_le_bytes([*b.get(p + 1).unwrap_or(&0), *b.get(p + 2).unwrap_or(&0)]) as usize,
            _ => 1,
        };
        if op != 0xab {
            out.extend_from_slice(&b[p..(p + n).min(b.len())]);
        }
        p += n;
    }
    out
}

fn push(b: &[u8]) -> Vec<u8> {
    let mut v = vec![];
    if b.len() <= 75 {
        v.push(b.len() as u8);
    } else {
        v.push(0x4c);
        v.push(b.len() as u8);
    }
    v.extend_from_slice(b);
    v
}

fn der(r: &[u8], s: &[u8]) -> Vec<u8> {
    fn int(x: &[u8]) -> Vec<u8> {
        let mut i = 0;
        while i + 1 < x.len() && x[i] == 0 {
            i += 1;
        }
        let mut v = x[i..].to_vec();
        if v[0] & 0x80 != 0 {
            v.insert(0, 0);
        }
        let mut o = vec![0x02, v.len() as u8];
        o.extend(v);
        o
    }
    let mut body = int(r);
    body.extend(int(s));
    let mut o = vec![0x30, body.len() as u8];
    o.extend(body);
    o
}

#[derive(Clone, Debug)]
struct Utxo {
    family: String, // p2pk | p2pkh | multisig
    m: usize,
    keys: Vec<usize>,
    verify: bool,
    value: u64,
    txid: Vec<u8>,
    vout: u32,
    /// full locking script bytes
    lock: Vec<u8>,
    /// the subscript a correct signer uses: bytes after the last separator executed before the check
    subscript: Vec<u8>,
    /// two-stage family only: subscript of the FIRST check (key slot 0); `subscript` is the second check's
    subscript_first: Vec<u8>,
    sep_in_branch: bool,
    n_seps: usize,
    compressed: bool,
    multisig_uncompressed: bool,
    /// none | top-level | in-branch | after-branch
    sep_class: &'static str,
    sep_untaken: bool,
    /// plain P2PKH whose locking script was assembled by the library (P2PKHAddress::get_locking_script), not by the harness
    lock_from_api: bool,
}

fn pubkey_bytes(k: usize, compressed: bool) -> Vec<u8> {
    rf::pubkey_of(&hex::decode(KEYS[k % KEYS.len()]).unwrap(), compressed).unwrap()
}

fn build_utxo(u: &Value) -> Option<Utxo> {
    let family = jstr(u, "family").to_string();
    let keys: Vec<usize> = u.get("keys")?.as_array()?.iter().map(|k| k.as_u64().unwrap_or(0) as usize % KEYS.len()).collect();
    if keys.is_empty() {
        return None;
    }
    let m = jusize(u, "m").clamp(1, keys.len());
    let verify = jbool(u, "verify");
    let compressed = !jbool(u, "uncompressed");
    // body as a list of (bytes) items; separators are inserted between items
    let mut items: Vec<Vec<u8>> = vec![];
    match family.as_str() {
        "p2pk" => {
            items.push(push(&pubkey_bytes(keys[0], compressed)));
            items.push(vec![if verify { 0xad } else { 0xac }]);
        }
        "p2pkh" => {
            let h = ref_hash("hash160", &pubkey_bytes(keys[0], compressed));
            items.push(vec![0x76]);
            items.push(vec![0xa9]);
            items.push(push(&h));
            items.push(vec![0x88]);
            items.push(vec![if verify { 0xad } else { 0xac }]);
        }
        "twostage" => {
            // <pkA> CHECKSIGVERIFY <pkB> CHECKSIG : two checks, each with its own subscript
            if keys.len() < 2 {
                return None;
            }
            items.push(push(&pubkey_bytes(keys[0], true)));
            items.push(vec![0xad]);
            items.push(push(&pubkey_bytes(keys[1], true)));
            items.push(vec![if verify { 0xad } else { 0xac }]);
        }
        _ => {
            items.push(vec![0x50 + m as u8]);
            for k in &keys {
                items.push(push(&pubkey_bytes(*k, !jbool(u, "multisig_uncompressed"))));
            }
            items.push(vec![0x50 + keys.len() as u8]);
            items.push(vec![if verify { 0xaf } else { 0xae }]);
        }
    }
    let m = if family == "twostage" { 2 } else { m };
    // optional ballast in front: <n bytes> OP_DROP, so scripts and subscripts cross the 75/76 push boundary and the
    // 252/253 compact-size boundary (script length is serialised inside both preimage formats)
    let mut pad = jusize(u, "pad");
    let pad_to = jusize(u, "pad_to");
    if pad_to > 0 {
        // choose the ballast so that the finished locking script is exactly pad_to bytes long
        let base_len: usize = items.iter().map(|i| i.len()).sum::<usize>() + if verify { 1 } else { 0 } + if verify && jbool(u, "sep_after_check") { 1 } else { 0 };
        // ballast costs payload + 2 (PUSHDATA1 prefix) + 1 (OP_DROP) for payloads of 76..=255 bytes
        let want = pad_to as i64 - base_len as i64 - 3;
        pad = if (76..=255).contains(&want) {
            want as usize
        } else if (256..=65535).contains(&(want - 1)) {
            // PUSHDATA2 prefix is one byte longer
            (want - 1) as usize
        } else {
            0
        };
    }
    if pad > 0 {
        let mut p = vec![];
        if pad <= 75 {
            p.push(pad as u8);
        } else if pad <= 255 {
            p.extend([0x4c, pad as u8]);
        } else {
            p.push(0x4d);
            p.extend((pad as u16).to_le_bytes());
        }
        p.extend(std::iter::repeat(0x5a).take(pad));
        items.insert(0, vec![0x75]);
        items.insert(0, p);
    }
    let check_idx = items.len() - 1;
    // separators at positions <= check_idx (before item p)
    let mut seps: Vec<usize> = u.get("seps").and_then(|s| s.as_array()).map(|a| a.iter().map(|x| x.as_u64().unwrap_or(0) as usize % (check_idx + 1)).collect()).unwrap_or_default();
    seps.sort();
    seps.dedup();
    let sep_in_branch = jbool(u, "sep_in_branch");
    let branch_at = jusize(u, "branch_at") % (check_idx + 1);
    // a separator that is present but never executes (round 11): it must not move the subscript
    let sep_untaken = jbool(u, "sep_untaken") && !sep_in_branch;
    let untaken_at = jusize(u, "untaken_at") % (check_idx + 1);
    let mut lock: Vec<u8> = vec![];
    let mut last_sep_end: usize = 0; // byte offset right after the last executed separator
    let mut branch_tail: Option<usize> = None;
    let mut first_check_sub_start: usize = 0;
    for (p, it) in items.iter().enumerate() {
        if sep_in_branch && p == branch_at {
            // OP_1 OP_IF OP_CODESEPARATOR [OP_ELSE [OP_NOP]] OP_ENDIF : the separator executes inside the taken branch;
            // forms 1 and 2 carry an explicit else branch (empty / non-empty)
            lock.extend_from_slice(&[0x51, 0x63, 0xab]);
            branch_tail = Some(lock.len()); // subscript starts here: [OP_ELSE ..] OP_ENDIF ...
            last_sep_end = lock.len();
            match jusize(u, "branch_form") {
                1 => lock.extend_from_slice(&[0x67, 0x68]),
                2 => lock.extend_from_slice(&[0x67, 0x61, 0x68]),
                _ => lock.push(0x68),
            }
        }
        if sep_untaken && p == untaken_at {
            match jusize(u, "untaken_form") {
                // OP_0 OP_IF OP_CODESEPARATOR OP_ENDIF
                0 => lock.extend_from_slice(&[0x00, 0x63, 0xab, 0x68]),
                // OP_0 OP_IF OP_CODESEPARATOR OP_ELSE OP_NOP OP_ENDIF
                1 => lock.extend_from_slice(&[0x00, 0x63, 0xab, 0x67, 0x61, 0x68]),
                // OP_1 OP_NOTIF OP_CODESEPARATOR OP_ENDIF
                2 => lock.extend_from_slice(&[0x51, 0x64, 0xab, 0x68]),
                // OP_1 OP_IF OP_ELSE OP_CODESEPARATOR OP_ENDIF : the separator sits in the else branch of a taken IF
                3 => lock.extend_from_slice(&[0x51, 0x63, 0x67, 0xab, 0x68]),
                // OP_0 OP_IF OP_1 OP_IF OP_CODESEPARATOR OP_ENDIF OP_ENDIF : nested, the outer conditional is not taken
                4 => lock.extend_from_slice(&[0x00, 0x63, 0x51, 0x63, 0xab, 0x68, 0x68]),
                // OP_0 OP_IF OP_VERIFY OP_CODESEPARATOR OP_ENDIF : an opcode that would fail, and a separator, both unexecuted
                5 => lock.extend_from_slice(&[0x00, 0x63, 0x69, 0xab, 0x68]),
                // OP_1 OP_IF OP_ELSE OP_0 OP_IF OP_CODESEPARATOR OP_ENDIF OP_ENDIF : nested inside an else branch that is not taken
                6 => lock.extend_from_slice(&[0x51, 0x63, 0x67, 0x00, 0x63, 0xab, 0x68, 0x68]),
                // OP_0 OP_IF OP_ELSE OP_ELSE OP_ENDIF : no separator at all - a conditional with two OP_ELSE and nothing in any
                // segment, inert under every reading of a repeated OP_ELSE; the script bytes are what the preimage carries
                _ => lock.extend_from_slice(&[0x00, 0x63, 0x67, 0x67, 0x68]),
            }
        }
        if seps.contains(&p) {
            lock.push(0xab);
            last_sep_end = lock.len();
            branch_tail = None;
        }
        if family == "twostage" && p == 1 + if pad > 0 { 2 } else { 0 } {
            first_check_sub_start = last_sep_end;
        }
        lock.extend_from_slice(it);
    }
    if verify {
        // <check>VERIFY [OP_CODESEPARATOR] OP_1 : a separator that executes after the check is still part of the check's
        // subscript (FORKID preimages carry it, legacy preimages have every separator removed)
        if jbool(u, "sep_after_check") {
            lock.push(0xab);
        }
        lock.push(0x51);
    }
    let subscript = lock[last_sep_end..].to_vec();
    let subscript_first = lock[first_check_sub_start..].to_vec();
    let last_is_branch = sep_in_branch && branch_tail.is_some();
    let sep_class = if last_is_branch {
        "in-branch"
    } else if (sep_in_branch && seps.iter().any(|p| *p >= branch_at)) || (sep_untaken && matches!(jusize(u, "untaken_form"), 1 | 7..) && seps.iter().any(|p| *p >= untaken_at)) {
        // (a non-empty else branch that is spliced in shifts the index of every later separator, like a taken branch does)
        "after-branch"
    } else if last_sep_end > 0 {
        "top-level"
    } else {
        "none"
    };
    let (txid, vout) = if jbool(u, "coinbase_like") { (vec![0u8; 32], 0xffff_ffffu32) } else { (jhex(u, "txid"), ju64(u, "vout") as u32) };
    // "standard P2PKH spends assembled through the library's own API": for the plain shape the locking script is the library's
    let mut lock = lock;
    let mut subscript = subscript;
    let mut subscript_first = subscript_first;
    let mut lock_from_api = false;
    if family == "p2pkh" && jbool(u, "lock_api") && seps.is_empty() && !sep_in_branch && !sep_untaken && pad == 0 && !verify {
        let pkb = pubkey_bytes(keys[0], compressed);
        let api = guard(|| -> Option<Vec<u8>> {
            let pk = PublicKey::from_bytes(&pkb).ok()?;
            let a = P2PKHAddress::from_pubkey(&pk).ok()?;
            Some(a.get_locking_script().ok()?.to_bytes())
        });
        if let Ok(Some(b)) = api {
            if Script::from_bytes(&b).is_ok() {
                lock = b;
                subscript = lock.clone();
                subscript_first = lock.clone();
                lock_from_api = true;
            }
        }
    }
    Some(Utxo { family, m, keys, verify, value: ju64s(u, "value"), txid, vout, lock, subscript, subscript_first, sep_in_branch: last_is_branch, n_seps: seps.len(), sep_untaken, compressed, multisig_uncompressed: jbool(u, "multisig_uncompressed"), sep_class, lock_from_api })
}

struct SigRec {
    key: usize,
    flag: u8,
    bytes: Vec<u8>, // DER + flag
    view: Vec<u8>,
    byz: bool,
    /// the subscript this signature was made over
    sub: Vec<u8>,
    obj: Option<SighashSignature>,
    /// (inputs, outputs) present when the signature was made
    built: (usize, usize),
}

struct Fin {
    sigs: Vec<usize>, // indices into sigs of that input
    order_ok: bool,
    tampered: Vec<String>,
    /// scripts installed by finalise; tampering counts only while the installed bytes differ from these
    pristine_unl: Vec<u8>,
    pristine_lock: Vec<u8>,
}

struct InState {
    sigs: Vec<SigRec>,
    fin: Option<Fin>,
}

impl SpendNet {
    fn gen_out(rng: &mut Rng) -> Value {
        let s = match rng.below(6) {
            0 => "51".to_string(),
            3 => "5163516768".to_string(),   // OP_1 OP_IF OP_1 OP_ELSE OP_ENDIF : explicit, empty else branch
            4 => "0063675168".to_string(),   // OP_0 OP_IF OP_ELSE OP_1 OP_ENDIF : empty if branch
            5 => {
                // OP_RETURN + one push, total length exactly 252 / 253 / 254 (compact-size boundary of the script length)
                let total = *rng.pick(&[252usize, 253, 254]);
                let payload = total - 3;
                let mut v = vec![0x6a, 0x4c, payload as u8];
                v.extend(rng.bytes(payload));
                hx(&v)
            }
            1 => {
                let mut v = vec![0x76, 0xa9, 0x14];
                v.extend(rng.bytes(20));
                v.extend([0x88, 0xac]);
                hx(&v)
            }
            _ => "006a0401020304".to_string(),
        };
        json!({"value": u64s(match rng.below(6) { 0 => 0, 1 => u64::MAX, 2 => 1u64 << 63, 3 => (1u64 << 63) - 1, _ => rng.below(1 << 44) }), "script": s})
    }
}

impl Scenario for SpendNet {
    fn info(&self) -> ScenarioInfo {
        ScenarioInfo {
            property: "C15",
            name: "spend-net",
            rule: "one case = one seeded collaborative-build history of 6-45 events on a shared real Transaction: builders add / insert / prepend / replace inputs and outputs, signers sign inputs (P2PK / P2PKH / m-of-n multisig 1<=m<=n<=3 / a two-check script <pkA> CHECKSIGVERIFY <pkB> CHECKSIG whose checks have different subscripts, CHECKSIG or *VERIFY form, code separators at seeded positions incl. inside an always-taken OP_IF) through Transaction::sign (or as a reference peer over an independently computed preimage) with any of the 12 standard flag bytes at any point of the build, possibly with a script parked in the input while signing, finalise picks any subset of m signers (or an outsider) and assembles unlocking scripts through Script::from_asm_string / P2PKHAddress::get_unlocking_script + set_input, parties mutate one field after signing (version, locktime, own/other outpoint, own/other sequence, an output value/script, output or input count, declared value, a key byte, a signature byte, an extra byte before the flag, the flag byte, signature order, an emptied or dropped signature), a byzantine peer signs the byte-reversed digest, the transaction is shipped through extended CBOR/JSON, and a validator runs Interpreter::from_transaction on the live object and the shipped copy, also with stdout failing and also crash-restarted mid-script through the interpreter's JSON form; non-trivial = a mutation, byzantine signature, out-of-order signing (signature made before the build was complete) or ship happened before a validation; distinct = fingerprint of the (event kind, family, flag, mutation kind, verdict) sequence",
            abstract_state: "(family, m-of-n, flag, separators class, mutation kind since signing or none, shipped?, expected verdict)",
            real: &["bsv::Transaction (add_input/add_output/set_input/set_output/set_version/set_nlocktime, sign, to/from extended CBOR and JSON)", "bsv::Interpreter::{from_transaction, run, state}", "bsv::Script::{from_bytes, from_asm_string}", "bsv::P2PKHAddress::{from_pubkey, get_unlocking_script}", "bsv::SighashSignature, bsv::TxIn extended fields"],
            stub: &["covered-view model: a ~40-line table of which fields each flag commits to (not a byte-level preimage)", "ByzSigner: RFC 6979 textbook signer over the byte-reversed double-SHA256 of the library's own preimage", "locking scripts are assembled byte-wise by the harness (families fixed by the statement)"],
            assumptions: &["value mutations are not generated for legacy-flag signatures: the original algorithm does not commit to the value although the statement lists it", "ship events are applied only when the restored object re-serialises identically and keeps every input's locking script and declared value (fidelity of the formats is C18's subject)", "inputs/outputs are appended, replaced, prepended and inserted; an inserted input shifts the ones behind it together with their signatures and scripts"],
            required_probes: &["validate_expect_accept", "validate_expect_reject", "signed_before_build_complete", "mutated_covered_field", "mutated_uncovered_field", "family_p2pk", "family_p2pkh", "family_multisig", "family_twostage", "flag_legacy", "flag_forkid", "separator_present", "shipped", "byz_signed", "sig_tampered", "validated_on_shipped_copy", "validated_under_stdout_fault", "ref_signed", "lib_signature_checked_against_reference_preimage", "multisig_signers_are_another_subset", "multisig_first_key_does_not_sign", "finalise_with_outsider_signature", "p2pkh_lock_from_library_api", "signed_with_parked_subscript"],
            quick_runs: 15_000,
            thorough_runs: 1_500_000,
            rlimit_as: 4 << 30,
            alloc_abort_is_violation: true,
        }
    }

    fn generate(&self, rng: &mut Rng, _tier: Tier, _index: u64) -> Plan {
        let n_utxo = rng.range(1, 3);
        let mut utxos = vec![];
        for u in 0..n_utxo {
            let family = *rng.pick(&["p2pk", "p2pkh", "multisig", "multisig", "twostage"]);
            let n = if family == "multisig" { rng.range(1, 3) } else if family == "twostage" { 2 } else { 1 };
            let mut keys: Vec<u64> = (0..KEYS.len() as u64).collect();
            rng.shuffle(&mut keys);
            keys.truncate(n as usize);
            if family == "multisig" && n >= 2 && rng.chance(1, 10) {
                // the same public key listed twice in the script
                keys[1] = keys[0];
            }
            let n_seps = rng.weighted(&[60, 25, 15]);
            let seps: Vec<u64> = (0..n_seps).map(|_| rng.below(8)).collect();
            let mut txid = rng.bytes(32);
            txid[0] = u as u8;
            utxos.push(json!({"family": family, "m": rng.range(1, n), "keys": keys, "verify": rng.chance(1, 3), "uncompressed": rng.chance(1, 5), "seps": seps,
                "sep_in_branch": rng.chance(1, 12), "branch_at": rng.below(8), "pad": if rng.chance(1, 4) { *rng.pick(&[1u64, 75, 76, 200, 255, 256, 300]) } else { 0 }, "pad_to": if rng.chance(1, 8) { *rng.pick(&[252u64, 253, 254, 252, 253, 65535, 65536, 65537]) } else { 0 },
                "branch_form": rng.below(3), "sep_untaken": rng.chance(1, 10), "untaken_at": rng.below(8), "untaken_form": rng.below(8), "lock_api": rng.chance(1, 2), "sep_after_check": rng.chance(1, 4), "multisig_uncompressed": rng.chance(1, 8), "coinbase_like": rng.chance(1, 30), "value": u64s(match rng.below(8) { 0 => 0, 1 => u64::MAX, 2 => u64::MAX - 1, 3 => (1u64 << 53) + 1, 4 => rng.below(1 << 63) | 1, 5 => (1u64 << 63) + 1025, _ => rng.below(1 << 44) }), "txid": hx(&txid), "vout": rng.below(3)}));
        }
        let mut events = vec![json!({"op": "setup", "utxos": utxos, "version": *rng.pick(&[1u32, 2, 0, u32::MAX]), "locktime": *rng.pick(&[0u32, 1, 499_999_999, u32::MAX])})];
        let n_events = rng.range(6, 40);
        let mut n_in = 0u64;
        let mut n_out = 0u64;
        let swarm_flags: Vec<u8> = {
            let mut f: Vec<u8> = STD_FLAGS.iter().cloned().filter(|_| rng.chance(1, 2)).collect();
            if f.is_empty() {
                f = STD_FLAGS.to_vec();
            }
            f
        };
        // rarely a transaction whose input or output COUNT sits at the compact-size boundary
        if rng.chance(1, 40) {
            events.push(json!({"op": if rng.chance(1, 2) { "bulk_outputs" } else { "bulk_inputs" }, "n": *rng.pick(&[248u64, 250, 251, 252, 253])}));
        }
        // most runs first assemble something signable
        let early_build = rng.chance(3, 4);
        if early_build {
            for u in 0..n_utxo {
                events.push(json!({"op": "add_input", "utxo": u, "seq": *rng.pick(&[0xffff_ffffu32, 0xffff_fffe, 0, 1])}));
                n_in += 1;
            }
            for _ in 0..rng.range(0, 3) {
                let mut o = Self::gen_out(rng);
                o["op"] = json!("add_output");
                events.push(o);
                n_out += 1;
            }
        }
        while (events.len() as u64) < n_events {
            // most of the time a whole episode on one input: sign round -> (build on) -> finalise -> (mutate) -> (ship) -> validate
            if n_in > 0 && rng.chance(3, 5) {
                let i = rng.below(n_in);
                let mixed = rng.chance(1, 4);
                let flag = *rng.pick(&swarm_flags);
                let signer = if rng.chance(1, 4) { "ref_sign" } else { "sign" };
                let park = if rng.chance(1, 3) { *rng.pick(&["subscript", "subscript", "lock", "other"]) } else { "" };
                for slot in 0..3 {
                    let f = if mixed { *rng.pick(&swarm_flags) } else { flag };
                    events.push(json!({"op": signer, "input": i, "slot": slot, "flag": f, "park": park}));
                }
                if rng.chance(1, 12) {
                    events.push(json!({"op": "byz_sign", "input": i, "slot": rng.below(3), "flag": flag}));
                }
                if rng.chance(1, 4) && n_out < 4 {
                    let mut o = Self::gen_out(rng);
                    o["op"] = json!("add_output");
                    events.push(o);
                    n_out += 1;
                }
                // which of the listed keys sign: any subset (bit k set = key position k stays out), sometimes an outsider
                let skip = if rng.chance(1, 2) { rng.below(7) } else { 0 };
                let wrong = rng.chance(1, 10);
                if wrong {
                    events.push(json!({"op": "sign", "input": i, "slot": rng.below(3), "flag": flag, "wrong_key": true}));
                }
                events.push(json!({"op": "finalise", "input": i, "order": match rng.below(14) { 0 => "desc", 1 => "dup", _ => "asc" }, "api": rng.chance(1, 2), "skip": skip, "wrong": wrong, "wrong_at": rng.below(3)}));
                if rng.chance(1, 3) {
                    // another party finalises a different input in between (the normal workflow)
                    let j = rng.below(n_in);
                    for slot in 0..3 {
                        events.push(json!({"op": "sign", "input": j, "slot": slot, "flag": *rng.pick(&swarm_flags)}));
                    }
                    events.push(json!({"op": "finalise", "input": j, "order": "asc", "api": rng.chance(1, 2)}));
                }
                for _ in 0..rng.weighted(&[40, 45, 15]) {
                    let what = *rng.pick(&["version", "locktime", "outpoint", "sequence", "output_value", "output_script", "add_output", "add_input", "declared_value", "key_byte", "key_byte", "sig_byte", "flag_byte", "sig_extra_byte", "sig_empty", "sig_drop", "sig_high_s", "outpoint", "sequence", "output_value", "insert_output", "insert_output", "prepend_output", "insert_input", "prepend_input"]);
                    // bias towards OTHER inputs/outputs than the signed one: that is where flags differ
                    let mi = if rng.chance(1, 2) { i } else { rng.below(n_in) };
                    events.push(json!({"op": "mutate", "what": what, "input": mi, "output": if n_out > 0 { rng.below(n_out) } else { 0 }, "r": rng.below(1 << 30), "utxo": rng.below(n_utxo)}));
                    if what == "add_output" || what == "insert_output" || what == "prepend_output" {
                        n_out += 1;
                    }
                    if what == "add_input" || what == "insert_input" || what == "prepend_input" {
                        n_in += 1;
                    }
                }
                if rng.chance(1, 5) {
                    events.push(json!({"op": "ship", "fmt": *rng.pick(&["cbor", "json"])}));
                }
                let so = if rng.chance(1, 8) { *rng.pick(&["enospc", "epipe", "eagain", "ebadf"]) } else { "" };
                events.push(json!({"op": "validate", "input": i, "stdout": so, "persist": rng.chance(1, 4), "persist_after": rng.below(14)}));
                continue;
            }
            match rng.weighted(&[8, 8, 26, 16, 16, 20, 4, 2]) {
                0 => {
                    if n_in < 4 {
                        events.push(json!({"op": "add_input", "utxo": rng.below(n_utxo), "seq": *rng.pick(&[0xffff_ffffu32, 0xffff_fffe, 0, 7])}));
                        n_in += 1;
                    }
                }
                1 => {
                    if n_out < 4 {
                        let mut o = Self::gen_out(rng);
                        o["op"] = json!("add_output");
                        events.push(o);
                        n_out += 1;
                    }
                }
                2 => {
                    if n_in > 0 {
                        // sign every key slot of one input with one flag (a signing round), or a single key
                        let i = rng.below(n_in);
                        let flag = *rng.pick(&swarm_flags);
                        if rng.chance(2, 3) {
                            for slot in 0..3 {
                                events.push(json!({"op": "sign", "input": i, "slot": slot, "flag": flag}));
                            }
                        } else {
                            events.push(json!({"op": "sign", "input": i, "slot": rng.below(3), "flag": *rng.pick(&swarm_flags), "wrong_key": rng.chance(1, 8)}));
                        }
                    }
                }
                3 => {
                    if n_in > 0 {
                        events.push(json!({"op": "finalise", "input": rng.below(n_in), "order": if rng.chance(1, 10) { "desc" } else { "asc" }, "api": rng.chance(1, 2)}));
                    }
                }
                4 => {
                    let what = *rng.pick(&["version", "locktime", "outpoint", "sequence", "output_value", "output_script", "add_output", "add_input", "declared_value", "key_byte", "sig_byte", "flag_byte", "sig_extra_byte", "sig_empty", "sig_drop", "sig_high_s", "insert_output", "prepend_output", "insert_input", "prepend_input"]);
                    events.push(json!({"op": "mutate", "what": what, "input": if n_in > 0 { rng.below(n_in) } else { 0 }, "output": if n_out > 0 { rng.below(n_out) } else { 0 }, "r": rng.below(1 << 30), "utxo": rng.below(n_utxo)}));
                    if what == "add_output" || what == "insert_output" || what == "prepend_output" {
                        n_out += 1;
                    }
                    if what == "add_input" || what == "insert_input" || what == "prepend_input" {
                        n_in += 1;
                    }
                }
                5 => {
                    if n_in > 0 {
                        events.push(json!({"op": "validate", "input": rng.below(n_in)}));
                    }
                }
                6 => events.push(json!({"op": "ship", "fmt": *rng.pick(&["cbor", "json"])})),
                _ => {
                    if n_in > 0 {
                        events.push(json!({"op": "byz_sign", "input": rng.below(n_in), "slot": rng.below(3), "flag": *rng.pick(&swarm_flags)}));
                    }
                }
            }
        }
        for i in 0..n_in {
            events.push(json!({"op": "validate", "input": i}));
        }
        Plan { config: json!({"utxos": n_utxo, "flags": swarm_flags.iter().map(|f| flag_name(*f)).collect::<Vec<_>>()}), events }
    }

    fn execute(&self, plan: &Plan, ctx: &mut RunCtx) {
        self.execute_inner(plan, ctx);
        // whatever way the run ended, fd 1 is healthy again before the next run of this worker starts
        crate::faults::stdout_heal();
    }

    fn shrink_event(&self, ev: &Event) -> Vec<Event> {
        self.shrink_event_impl(ev)
    }
}

impl SpendNet {
    fn execute_inner(&self, plan: &Plan, ctx: &mut RunCtx) {
        let mut utxos: Vec<Utxo> = vec![];
        let mut tx = Transaction::new(1, 0);
        let mut m = MTx { version: 1, locktime: 0, ins: vec![], outs: vec![] };
        let mut ins: Vec<InState> = vec![];
        let mut shipped: Option<Transaction> = None;
        let keys: Vec<PrivateKey> = KEYS.iter().map(|k| PrivateKey::from_hex(k).unwrap()).collect();
        let mut last_mutation = String::from("none");

        macro_rules! lib {
            ($label:expr, $e:expr) => {
                match guard(|| $e) {
                    Ok(v) => v,
                    Err(p) => {
                        if ctx.violate("panic", format!("panic@{}#{}", site_file(&p.site), $label), format!("{} panicked at {}: {}", $label, p.site, p.msg)) {
                            return;
                        }
                        continue;
                    }
                }
            };
        }

        for (seq, ev) in plan.events.iter().enumerate() {
            if ctx.stopped() {
                return;
            }
            ctx.seq = seq;
            let op = jstr(ev, "op").to_string();
            ctx.crumb(&op);
            match op.as_str() {
                "setup" => {
                    if !utxos.is_empty() {
                        ctx.skip();
                        continue;
                    }
                    for u in ev.get("utxos").and_then(|a| a.as_array()).cloned().unwrap_or_default() {
                        if let Some(x) = build_utxo(&u) {
                            if x.txid.len() == 32 {
                                if x.lock_from_api {
                                    ctx.probe("p2pkh_lock_from_library_api");
                                }
                                utxos.push(x);
                            }
                        }
                    }
                    ctx.event(seq, "setup", "");
                    let (v, l) = (ju64(ev, "version") as u32, ju64(ev, "locktime") as u32);
                    tx = Transaction::new(v, l);
                    m.version = v;
                    m.locktime = l;
                }
                "add_input" => {
                    let u = jusize(ev, "utxo");
                    if u >= utxos.len() || m.ins.len() >= 4 {
                        ctx.skip();
                        continue;
                    }
                    ctx.event(seq, "add_input", &utxos[u].family);
                    let seqn = ju64(ev, "seq") as u32;
                    let ut = &utxos[u];
                    let ti = TxIn::new(&ut.txid, ut.vout, &Script::default(), Some(seqn));
                    lib!("add_input", tx.add_input(&ti));
                    m.ins.push(MI { txid: ut.txid.clone(), vout: ut.vout, seq: seqn, utxo: u, declared: ut.value });
                    ins.push(InState { sigs: vec![], fin: None });
                    shipped = None;
                }
                "bulk_outputs" | "bulk_inputs" => {
                    // counts around the 252/253 compact-size boundary (only once per run: keeps runs cheap)
                    let n = jusize(ev, "n").min(260);
                    if m.outs.len() + m.ins.len() > 12 || utxos.is_empty() {
                        ctx.skip();
                        continue;
                    }
                    ctx.event(seq, &op, "");
                    ctx.probe("bulk_count_near_253");
                    if op == "bulk_outputs" {
                        let sc = Script::from_bytes(&[0x51]).unwrap_or_default();
                        let outs: Vec<TxOut> = (0..n).map(|k| TxOut::new(k as u64, &sc)).collect();
                        lib!("add_outputs", tx.add_outputs(outs));
                        for k in 0..n {
                            m.outs.push(MO { value: k as u64, script: vec![0x51] });
                        }
                    } else {
                        let ut = utxos[0].clone();
                        let mut tis = vec![];
                        for k in 0..n {
                            let mut txid = vec![0xEEu8; 32];
                            txid[0] = (k & 0xff) as u8;
                            txid[1] = (k >> 8) as u8;
                            tis.push(TxIn::new(&txid, k as u32, &Script::default(), Some(0xffff_ff00 | (k as u32 & 0xff))));
                            m.ins.push(MI { txid, vout: k as u32, seq: 0xffff_ff00 | (k as u32 & 0xff), utxo: 0, declared: ut.value });
                            ins.push(InState { sigs: vec![], fin: None });
                        }
                        lib!("add_inputs", tx.add_inputs(tis));
                    }
                    shipped = None;
                }
                "add_output" => {
                    if m.outs.len() >= 4 {
                        ctx.skip();
                        continue;
                    }
                    let sb = jhex(ev, "script");
                    let sc = match Script::from_bytes(&sb) {
                        Ok(s) => s,
                        Err(_) => {
                            ctx.skip();
                            continue;
                        }
                    };
                    ctx.event(seq, "add_output", "");
                    let val = ju64s(ev, "value");
                    lib!("add_output", tx.add_output(&TxOut::new(val, &sc)));
                    m.outs.push(MO { value: val, script: sb });
                    shipped = None;
                }
                "sign" | "byz_sign" | "ref_sign" => {
                    let i = jusize(ev, "input");
                    if i >= m.ins.len() {
                        ctx.skip();
                        continue;
                    }
                    let ut = utxos[m.ins[i].utxo].clone();
                    let slot = jusize(ev, "slot");
                    if slot >= ut.keys.len() {
                        ctx.skip();
                        continue;
                    }
                    let mut key = ut.keys[slot];
                    if jbool(ev, "wrong_key") {
                        key = (0..KEYS.len()).find(|k| !ut.keys.contains(k)).unwrap_or(key);
                    }
                    let flag_b = ju64(ev, "flag") as u8;
                    let flag = match SigHash::try_from(flag_b) {
                        Ok(f) if STD_FLAGS.contains(&flag_b) => f,
                        _ => {
                            ctx.skip();
                            continue;
                        }
                    };
                    let sub_bytes: Vec<u8> = if ut.family == "twostage" && slot == 0 { ut.subscript_first.clone() } else { ut.subscript.clone() };
                    let sub = match Script::from_bytes(&sub_bytes) {
                        Ok(s) => s,
                        Err(_) => {
                            ctx.probe("subscript_unparseable");
                            ctx.skip();
                            continue;
                        }
                    };
                    ctx.event(seq, &op, &format!("{}/{}", ut.family, flag_name(flag_b)));
                    ctx.probe(if is_forkid(flag_b) { "flag_forkid" } else { "flag_legacy" });
                    let value = m.ins[i].declared;
                    let vw = view(&m, i, flag_b, &sub_bytes, value);
                    if op == "sign" {
                        // the usual signing flow of other wallets: the script being satisfied is parked in the input while signing.
                        // What an input's unlocking script holds at signing time is not covered by any flag.
                        let park = jstr(ev, "park");
                        let mut unpark: Option<TxIn> = None;
                        if !park.is_empty() && ins[i].fin.is_none() {
                            unpark = tx.get_input(i);
                            let parked: Option<Script> = match park {
                                "subscript" => Some(sub.clone()),
                                "lock" => Script::from_bytes(&ut.lock).ok(),
                                _ => Script::from_bytes(&[0x51, 0xab, 0x51]).ok(),
                            };
                            if let (Some(ps), Some(mut txin)) = (parked, tx.get_input(i)) {
                                txin.set_unlocking_script(&ps);
                                lib!("set_input", tx.set_input(i, &txin));
                                ctx.probe(&format!("signed_with_parked_{}", park));
                            }
                        }
                        let res = guard(|| tx.sign(&keys[key], flag, i, &sub, value));
                        // the parked script leaves again whatever the signing call answered
                        if let Some(orig) = unpark {
                            lib!("set_input", tx.set_input(i, &orig));
                        }
                        let res = match res {
                            Ok(r) => r,
                            Err(p) => {
                                if ctx.violate("panic", format!("panic@{}#Transaction::sign", site_file(&p.site)), format!("Transaction::sign panicked at {}: {}", p.site, p.msg)) {
                                    return;
                                }
                                continue;
                            }
                        };
                        match (res, vw) {
                            (Ok(sig), Some(vw)) => {
                                let bytes = sig.to_bytes().unwrap_or_default();
                                ctx.observe(&bytes);
                                // the library's signature must be a valid ECDSA signature over the SPECIFIED preimage
                                let rs = rf::der_rs(&bytes[..bytes.len().saturating_sub(1)]);
                                if rs.is_none() {
                                    ctx.probe("lib_signature_not_der_plus_flag");
                                }
                                if let (Some(rp), Some((s2r, s2s))) = (ref_preimage(&m, i, flag_b, &sub_bytes, value), rs) {
                                    ctx.probe("lib_signature_checked_against_reference_preimage");
                                    let d = ref_hash("sha256d", &rp);
                                    let pkb = pubkey_bytes(key, true);
                                    if !rf::ecdsa_verify(&pkb, &d, &s2r, &s2s) {
                                        let fl = if is_forkid(flag_b) { "forkid" } else { "legacy" };
                                        if ctx.tracing() {
                                            let lp = tx.sighash_preimage(flag, i, &sub, value).unwrap_or_default();
                                            ctx.trace(|| format!("library preimage   {}", hx(&lp)));
                                            ctx.trace(|| format!("specified preimage {}", hx(&rp)));
                                        }
                                        if ctx.violate("mismatch", format!("lib-signature-not-over-specified-preimage:{} {}", fl, flag_name(flag_b)), format!("Transaction::sign({}) on input {} produced a signature that the textbook verifier rejects over the independently computed {} preimage ({} inputs, {} outputs, subscript {} bytes, own sequence {:#x})", flag_name(flag_b), i, fl, m.ins.len(), m.outs.len(), sub_bytes.len(), m.ins[i].seq)) {
                                            return;
                                        }
                                    }
                                }
                                ins[i].sigs.push(SigRec { key, flag: flag_b, bytes, view: vw, byz: false, sub: sub_bytes.clone(), obj: Some(sig), built: (m.ins.len(), m.outs.len()) });
                            }
                            (Err(_), None) => ctx.probe("sign_refused_no_matching_output"),
                            (Ok(_), None) => {
                                // SINGLE without a matching output: the model has no view; do not use the signature
                                ctx.probe("sign_succeeded_without_matching_output");
                            }
                            (Err(e), Some(_)) => {
                                if ctx.violate("reject", format!("sign-failed:{} {}", ut.family, flag_name(flag_b)), format!("Transaction::sign failed on a signable input: {}", e)) {
                                    return;
                                }
                            }
                        }
                    } else if op == "ref_sign" {
                        // honest reference peer: textbook ECDSA over the independently computed specified preimage
                        if let (Some(rp), Some(vw)) = (ref_preimage(&m, i, flag_b, &sub_bytes, value), vw) {
                            let d = ref_hash("sha256d", &rp);
                            let x = hex::decode(KEYS[key]).unwrap();
                            let h1 = rf::scalar_bytes(&rf::scalar_reduced(&d));
                            if let Some((r, s)) = rf::ecdsa_sign(&x, &d, &rf::rfc6979_k(&x, &h1, &[], "sha256")) {
                                let mut bytes = der(&r, &s);
                                bytes.push(flag_b);
                                ctx.probe("ref_signed");
                                ins[i].sigs.push(SigRec { key, flag: flag_b, bytes, view: vw, byz: false, sub: sub_bytes.clone(), obj: None, built: (m.ins.len(), m.outs.len()) });
                            }
                        }
                    } else {
                        // byzantine peer: valid ECDSA over the byte-reversed digest of the right preimage
                        let pre = lib!("sighash_preimage", tx.sighash_preimage(flag, i, &sub, value));
                        if let (Ok(pre), Some(vw)) = (pre, vw) {
                            let mut d = ref_hash("sha256d", &pre);
                            d.reverse();
                            let x = hex::decode(KEYS[key]).unwrap();
                            let h1 = rf::scalar_bytes(&rf::scalar_reduced(&d));
                            if let Some((r, s)) = rf::ecdsa_sign(&x, &d, &rf::rfc6979_k(&x, &h1, &[], "sha256")) {
                                let mut bytes = der(&r, &s);
                                bytes.push(flag_b);
                                ctx.fault("byzantine-signer(reversed-digest)");
                                ctx.probe("byz_signed");
                                ins[i].sigs.push(SigRec { key, flag: flag_b, bytes, view: vw, byz: true, sub: sub_bytes.clone(), obj: None, built: (m.ins.len(), m.outs.len()) });
                            }
                        }
                    }
                }
                "finalise" => {
                    let i = jusize(ev, "input");
                    if i >= m.ins.len() {
                        ctx.skip();
                        continue;
                    }
                    let ut = utxos[m.ins[i].utxo].clone();
                    // latest signature per key slot; need m of them
                    let mut chosen: Vec<usize> = vec![];
                    let mut chosen_positions: Vec<usize> = vec![];
                    let skip_mask = ju64(ev, "skip");
                    for (kp, k) in ut.keys.iter().enumerate() {
                        if skip_mask & (1 << kp) != 0 && ut.family == "multisig" {
                            continue;
                        }
                        if let Some(pos) = ins[i].sigs.iter().rposition(|s| s.key == *k) {
                            chosen.push(pos);
                            chosen_positions.push(kp);
                        }
                        if chosen.len() == ut.m {
                            break;
                        }
                    }
                    if skip_mask != 0 && ut.family == "multisig" && chosen.len() < ut.m {
                        // the requested subset cannot supply m signers: fall back to the first m that signed
                        chosen.clear();
                        chosen_positions.clear();
                        for (kp, k) in ut.keys.iter().enumerate() {
                            if let Some(pos) = ins[i].sigs.iter().rposition(|s| s.key == *k) {
                                chosen.push(pos);
                                chosen_positions.push(kp);
                            }
                            if chosen.len() == ut.m {
                                break;
                            }
                        }
                    }
                    if ut.family == "multisig" && chosen.len() == ut.m {
                        let prefix: Vec<usize> = (0..ut.m).collect();
                        ctx.probe(if chosen_positions == prefix { "multisig_signers_are_the_first_m_keys" } else { "multisig_signers_are_another_subset" });
                        if ut.m < ut.keys.len() && chosen_positions.first() != Some(&0) {
                            ctx.probe("multisig_first_key_does_not_sign");
                        }
                    }
                    if jbool(ev, "wrong") && !chosen.is_empty() {
                        // an outsider's signature takes one of the places (expected to be rejected)
                        if let Some(pos) = ins[i].sigs.iter().rposition(|s| !ut.keys.contains(&s.key)) {
                            let at = jusize(ev, "wrong_at") % chosen.len();
                            chosen[at] = pos;
                            ctx.probe("finalise_with_outsider_signature");
                        }
                    }
                    // a signature by a key outside the script may stand in (expected to be rejected)
                    if chosen.len() < ut.m {
                        if let Some(pos) = ins[i].sigs.iter().rposition(|s| !ut.keys.contains(&s.key)) {
                            chosen.push(pos);
                        }
                    }
                    if chosen.len() < ut.m {
                        ctx.skip();
                        continue;
                    }
                    let mut order_ok = true;
                    let mut duplicate = false;
                    if jstr(ev, "order") == "dup" && chosen.len() > 1 && ut.family == "multisig" {
                        // one signer fills two slots: two signatures by the first key (same one twice if it has only one)
                        let k0 = ins[i].sigs[chosen[0]].key;
                        let by_k0: Vec<usize> = ins[i].sigs.iter().enumerate().filter(|(_, s)| s.key == k0).map(|(p, _)| p).collect();
                        let second = if by_k0.len() >= 2 { by_k0[by_k0.len() - 2] } else { chosen[0] };
                        chosen[1] = second;
                        duplicate = true;
                    }
                    if jstr(ev, "order") == "desc" && chosen.len() > 1 {
                        // whether this breaks the order is decided below by matching signatures against key positions
                        chosen.reverse();
                    }
                    ctx.event(seq, "finalise", &ut.family);
                    let first = &ins[i].sigs[chosen[0]];
                    let pk_bytes = pubkey_bytes(ut.keys[0], ut.compressed);
                    let unlocking: Script = match ut.family.as_str() {
                        "p2pkh" => {
                            let use_api = jbool(ev, "api") && first.obj.is_some();
                            if use_api {
                                let pk = match PublicKey::from_bytes(&pk_bytes) {
                                    Ok(p) => p,
                                    Err(_) => {
                                        ctx.skip();
                                        continue;
                                    }
                                };
                                let addr = lib!("P2PKHAddress::from_pubkey", P2PKHAddress::from_pubkey(&pk));
                                let sigobj = first.obj.as_ref().unwrap();
                                match addr.and_then(|a| a.get_unlocking_script(&pk, sigobj)) {
                                    Ok(s) => s,
                                    Err(e) => {
                                        // "assembled ... through the library's own API": a refusal to assemble a standard spend from a
                                        // valid key and the signature the library just made is a rejection of a valid spend
                                        if ctx.violate("reject", "rejected-valid:api refused to assemble p2pkh unlocking script".into(), format!("P2PKHAddress::get_unlocking_script failed for a valid key and signature: {}", e)) {
                                            return;
                                        }
                                        continue;
                                    }
                                }
                            } else {
                                match lib!("from_asm_string", Script::from_asm_string(&format!("{} {}", hx(&first.bytes), hx(&pk_bytes)))) {
                                    Ok(s) => s,
                                    Err(e) => {
                                        if ctx.violate("reject", "rejected-valid:api refused to parse an unlocking script of plain pushes".into(), format!("Script::from_asm_string failed on hex pushes of signatures / keys: {}", e)) {
                                            return;
                                        }
                                        continue;
                                    }
                                }
                            }
                        }
                        "twostage" => {
                            // <sigB> <sigA>: the first check pops sigA
                            let a = &ins[i].sigs[chosen[0]];
                            let b = &ins[i].sigs[chosen[1]];
                            match lib!("from_asm_string", Script::from_asm_string(&format!("{} {}", hx(&b.bytes), hx(&a.bytes)))) {
                                Ok(s) => s,
                                Err(e) => {
                                    if ctx.violate("reject", "rejected-valid:api refused to parse an unlocking script of plain pushes".into(), format!("Script::from_asm_string failed on hex pushes of signatures / keys: {}", e)) {
                                        return;
                                    }
                                    continue;
                                }
                            }
                        }
                        "p2pk" => match lib!("from_asm_string", Script::from_asm_string(&hx(&first.bytes))) {
                            Ok(s) => s,
                            Err(e) => {
                                if ctx.violate("reject", "rejected-valid:api refused to parse an unlocking script of plain pushes".into(), format!("Script::from_asm_string failed on hex pushes of signatures / keys: {}", e)) {
                                    return;
                                }
                                continue;
                            }
                        },
                        _ => {
                            let mut asm = String::from("0");
                            for c in &chosen {
                                asm.push(' ');
                                asm.push_str(&hx(&ins[i].sigs[*c].bytes));
                            }
                            match lib!("from_asm_string", Script::from_asm_string(&asm)) {
                                Ok(s) => s,
                                Err(e) => {
                                    if ctx.violate("reject", "rejected-valid:api refused to parse an unlocking script of plain pushes".into(), format!("Script::from_asm_string failed on hex pushes of signatures / keys: {}", e)) {
                                        return;
                                    }
                                    continue;
                                }
                            }
                        }
                    };
                    let lock = match Script::from_bytes(&ut.lock) {
                        Ok(l) => l,
                        Err(_) => {
                            ctx.skip();
                            continue;
                        }
                    };
                    if let Some(mut txin) = tx.get_input(i) {
                        txin.set_unlocking_script(&unlocking);
                        txin.set_locking_script(&lock);
                        txin.set_satoshis(m.ins[i].declared);
                        lib!("set_input", tx.set_input(i, &txin));
                    }
                    // multisig needs ascending key order
                    if ut.family == "multisig" || ut.family == "twostage" {
                        // signatures must match keys in script order, each key position used at most once
                        // (a key listed twice may serve two signatures)
                        let mut last: isize = -1;
                        for c in &chosen {
                            let key = ins[i].sigs[*c].key;
                            match ut.keys.iter().enumerate().position(|(j, k)| (j as isize) > last && *k == key) {
                                Some(j) => last = j as isize,
                                None => {
                                    // a wrong-signer signature is judged by the wrong-signer cause, not by order
                                    if ut.keys.contains(&key) {
                                        order_ok = false;
                                    }
                                }
                            }
                        }
                    }
                    let _ = duplicate;

                    ins[i].fin = Some(Fin { sigs: chosen, order_ok, tampered: vec![], pristine_unl: unlocking.to_bytes(), pristine_lock: ut.lock.clone() });
                    shipped = None;
                }
                "mutate" => {
                    let what = jstr(ev, "what").to_string();
                    let i = jusize(ev, "input");
                    let o = jusize(ev, "output");
                    let r = ju64(ev, "r");
                    let mut applied = false;
                    match what.as_str() {
                        "version" => {
                            let v = m.version ^ (1 << (r % 32));
                            lib!("set_version", tx.set_version(v));
                            m.version = v;
                            applied = true;
                        }
                        "locktime" => {
                            let v = m.locktime ^ (1 << (r % 32));
                            lib!("set_nlocktime", tx.set_nlocktime(v));
                            m.locktime = v;
                            applied = true;
                        }
                        "outpoint" | "sequence" | "declared_value" | "key_byte" | "sig_byte" | "flag_byte" | "sig_extra_byte" | "sig_empty" | "sig_drop" | "sig_high_s" => {
                            if i >= m.ins.len() {
                                ctx.skip();
                                continue;
                            }
                            let mut txin = match tx.get_input(i) {
                                Some(t) => t,
                                None => {
                                    ctx.skip();
                                    continue;
                                }
                            };
                            let ut = utxos[m.ins[i].utxo].clone();
                            match what.as_str() {
                                "outpoint" => {
                                    if r % 2 == 0 {
                                        m.ins[i].vout ^= 1 << (r % 8);
                                        txin.set_vout(m.ins[i].vout);
                                    } else {
                                        let p = (r as usize / 2) % 32;
                                        m.ins[i].txid[p] ^= 1;
                                        txin.set_prev_tx_id(&m.ins[i].txid);
                                    }
                                    applied = true;
                                }
                                "sequence" => {
                                    m.ins[i].seq ^= 1 << (r % 32);
                                    txin.set_sequence(m.ins[i].seq);
                                    applied = true;
                                }
                                "declared_value" => {
                                    // only meaningful once the input carries a declared value; skipped for legacy signatures
                                    let has_legacy = ins[i].fin.as_ref().map(|f| f.sigs.iter().any(|s| !is_forkid(ins[i].sigs[*s].flag))).unwrap_or(true);
                                    if ins[i].fin.is_none() || has_legacy {
                                        ctx.skip();
                                        continue;
                                    }
                                    m.ins[i].declared ^= 1 << (r % 64);
                                    txin.set_satoshis(m.ins[i].declared);
                                    applied = true;
                                }
                                "key_byte" | "sig_byte" | "flag_byte" | "sig_extra_byte" | "sig_empty" | "sig_drop" | "sig_high_s" => {
                                    let ins_sig_key = match ins[i].fin.as_ref() {
                                        Some(f) => ins[i].sigs[f.sigs[0]].key,
                                        None => {
                                            ctx.skip();
                                            continue;
                                        }
                                    };
                                    let fin = match ins[i].fin.as_mut() {
                                        Some(f) => f,
                                        None => {
                                            ctx.skip();
                                            continue;
                                        }
                                    };
                                    let mut unl = txin.get_unlocking_script().to_bytes();
                                    let mut lockb = txin.get_locking_script_bytes().unwrap_or_default();
                                    // locate pushes in the unlocking script: [optional OP_0] sig... [pubkey]
                                    let mut pushes: Vec<(usize, usize)> = vec![]; // (start of payload, len)
                                    let mut p = 0;
                                    while p < unl.len() {
                                        let b = unl[p];
                                        if (1..=75).contains(&b) {
                                            pushes.push((p + 1, b as usize));
                                            p += 1 + b as usize;
                                        } else if b == 0x4c {
                                            let l = *unl.get(p + 1).unwrap_or(&0) as usize;
                                            pushes.push((p + 2, l));
                                            p += 2 + l;
                                        } else {
                                            p += 1;
                                        }
                                    }
                                    let n_sigs = fin.sigs.len();
                                    if pushes.len() < n_sigs {
                                        ctx.skip();
                                        continue;
                                    }
                                    match what.as_str() {
                                        "sig_byte" => {
                                            let (s, l) = pushes[(r as usize) % n_sigs];
                                            if l < 10 {
                                                ctx.skip();
                                                continue;
                                            }
                                            // inside the r or s integer payload, never the flag byte
                                            let off = 4 + (r as usize / 7) % (l - 1 - 4 - 3);
                                            unl[s + off] ^= 1 << (r % 8);
                                            fin.tampered.push("sig_byte".into());
                                        }
                                        "sig_high_s" => {
                                            // the signature's twin (r, n-s): a third party can compute it without any key. It is a
                                            // change to a signature, so the spend must be rejected (the library's verifiers refuse high s)
                                            let (s0, l) = pushes[(r as usize) % n_sigs];
                                            if l < 10 || l > 75 || s0 == 0 || unl[s0 - 1] as usize != l {
                                                ctx.skip();
                                                continue;
                                            }
                                            let flagb = unl[s0 + l - 1];
                                            let twin = rf::der_rs(&unl[s0..s0 + l - 1]).and_then(|(rr, ss)| {
                                                let sc = rf::scalar_exact(&ss)?;
                                                Some(der(&rr, &rf::scalar_bytes(&(-sc))))
                                            });
                                            match twin {
                                                Some(mut t) if t.len() + 1 <= 75 => {
                                                    t.push(flagb);
                                                    let mut repl = vec![t.len() as u8];
                                                    repl.extend(t);
                                                    unl.splice(s0 - 1..s0 + l, repl);
                                                    fin.tampered.push("sig_high_s".into());
                                                }
                                                _ => {
                                                    ctx.skip();
                                                    continue;
                                                }
                                            }
                                        }
                                        "sig_empty" | "sig_drop" => {
                                            // a signature is replaced by the empty item (OP_0), or is simply not there: nobody signed
                                            let (s0, l) = pushes[(r as usize) % n_sigs];
                                            if l < 10 || l > 75 || s0 == 0 || unl[s0 - 1] as usize != l {
                                                ctx.skip();
                                                continue;
                                            }
                                            if what == "sig_empty" {
                                                unl.splice(s0 - 1..s0 + l, [0x00u8]);
                                            } else {
                                                unl.splice(s0 - 1..s0 + l, []);
                                            }
                                            fin.tampered.push(what.clone());
                                        }
                                        "sig_extra_byte" => {
                                            // DER || <one extra byte that is itself a valid flag value> || flag: not a valid encoding
                                            let (s0, l) = pushes[(r as usize) % n_sigs];
                                            if l < 10 || l >= 75 || s0 == 0 {
                                                ctx.skip();
                                                continue;
                                            }
                                            let extra = STD_FLAGS[(r as usize / 3) % STD_FLAGS.len()];
                                            unl.insert(s0 + l - 1, extra);
                                            unl[s0 - 1] = (l + 1) as u8;
                                            fin.tampered.push("sig_extra_byte".into());
                                        }
                                        "flag_byte" => {
                                            let (s, l) = pushes[(r as usize) % n_sigs];
                                            let old = unl[s + l - 1];
                                            let mut alt = STD_FLAGS[(r as usize / 3) % STD_FLAGS.len()];
                                            if r % 5 == 0 {
                                                // a value outside the twelve standard flag bytes
                                                alt = [0x00u8, 0x04, 0x05, 0x40, 0x44, 0x80, 0xc0, 0xff][(r as usize / 5) % 8];
                                            }
                                            if alt == old {
                                                alt = if r % 2 == 0 { 0x04 } else { STD_FLAGS[((r as usize / 3) + 1) % STD_FLAGS.len()] };
                                            }
                                            unl[s + l - 1] = alt;
                                            fin.tampered.push("flag_byte".into());
                                        }
                                        _ => {
                                            if ut.family == "p2pkh" {
                                                let (s, l) = match pushes.last() {
                                                    Some(x) => *x,
                                                    None => {
                                                        ctx.skip();
                                                        continue;
                                                    }
                                                };
                                                unl[s + 1 + (r as usize / 5) % (l - 1)] ^= 1 << (r % 8);
                                            } else {
                                                // the pubkey a used signature has to match (a key that no signature uses and that lies
                                                // before the last separator is legitimately uncommitted)
                                                let used_key = ins_sig_key;
                                                if ut.keys.iter().filter(|k| **k == used_key).count() != 1 {
                                                    // the key is listed twice: the other copy still matches
                                                    ctx.skip();
                                                    continue;
                                                }
                                                let kb = pubkey_bytes(used_key, if ut.family == "multisig" { !ut.multisig_uncompressed } else if ut.family == "twostage" { true } else { ut.compressed });
                                                let pos = lockb.windows(kb.len()).position(|w| w == kb.as_slice());
                                                match pos {
                                                    Some(pp) => lockb[pp + 1 + (r as usize / 5) % (kb.len() - 1)] ^= 1 << (r % 8),
                                                    None => {
                                                        ctx.skip();
                                                        continue;
                                                    }
                                                }
                                            }
                                            fin.tampered.push("key_byte".into());
                                        }
                                    }
                                    match (Script::from_bytes(&unl), Script::from_bytes(&lockb)) {
                                        (Ok(u2), Ok(l2)) => {
                                            txin.set_unlocking_script(&u2);
                                            txin.set_locking_script(&l2);
                                        }
                                        _ => {
                                            ctx.skip();
                                            continue;
                                        }
                                    }
                                    ctx.probe("sig_tampered");
                                    applied = true;
                                }
                                _ => {}
                            }
                            if applied {
                                lib!("set_input", tx.set_input(i, &txin));
                            }
                        }
                        "output_value" | "output_script" => {
                            if o >= m.outs.len() {
                                ctx.skip();
                                continue;
                            }
                            if what == "output_value" {
                                m.outs[o].value ^= 1 << (r % 64);
                            } else {
                                m.outs[o].script = if m.outs[o].script == vec![0x51] { vec![0x52] } else { vec![0x51] };
                            }
                            let sc = Script::from_bytes(&m.outs[o].script).unwrap_or_default();
                            lib!("set_output", tx.set_output(o, &TxOut::new(m.outs[o].value, &sc)));
                            applied = true;
                        }
                        "add_output" => {
                            if m.outs.len() >= 5 {
                                ctx.skip();
                                continue;
                            }
                            lib!("add_output", tx.add_output(&TxOut::new(r, &Script::from_bytes(&[0x51]).unwrap_or_default())));
                            m.outs.push(MO { value: r, script: vec![0x51] });
                            applied = true;
                        }
                        "insert_output" | "prepend_output" => {
                            if m.outs.len() >= 6 {
                                ctx.skip();
                                continue;
                            }
                            // insertion index biased to the signed input's index (what SINGLE pairs with)
                            let k = if what == "prepend_output" { 0 } else if r % 3 == 0 { i.min(m.outs.len()) } else { (r as usize / 3) % (m.outs.len() + 1) };
                            let to = TxOut::new(r ^ 0x5555, &Script::from_bytes(&[0x52]).unwrap_or_default());
                            if what == "prepend_output" {
                                lib!("prepend_output", tx.prepend_output(&to));
                            } else {
                                lib!("insert_output", tx.insert_output(k, &to));
                            }
                            m.outs.insert(k, MO { value: r ^ 0x5555, script: vec![0x52] });
                            applied = true;
                        }
                        "insert_input" | "prepend_input" => {
                            let u = jusize(ev, "utxo");
                            if u >= utxos.len() || m.ins.len() >= 6 {
                                ctx.skip();
                                continue;
                            }
                            let k = if what == "prepend_input" { 0 } else { (r as usize / 3) % (m.ins.len() + 1) };
                            let ut = &utxos[u];
                            let mut txid = ut.txid.clone();
                            txid[30] ^= (m.ins.len() as u8) + 0x40;
                            let ti = TxIn::new(&txid, ut.vout, &Script::default(), Some(0xffff_fffd));
                            if what == "prepend_input" {
                                lib!("prepend_input", tx.prepend_input(&ti));
                            } else {
                                lib!("insert_input", tx.insert_input(k, &ti));
                            }
                            // every input at or behind k moves up by one, together with its signatures and scripts
                            m.ins.insert(k, MI { txid, vout: ut.vout, seq: 0xffff_fffd, utxo: u, declared: ut.value });
                            ins.insert(k, InState { sigs: vec![], fin: None });
                            applied = true;
                        }
                        "add_input" => {
                            let u = jusize(ev, "utxo");
                            if u >= utxos.len() || m.ins.len() >= 5 {
                                ctx.skip();
                                continue;
                            }
                            let ut = &utxos[u];
                            let mut txid = ut.txid.clone();
                            txid[31] ^= (m.ins.len() as u8) + 1;
                            lib!("add_input", tx.add_input(&TxIn::new(&txid, ut.vout, &Script::default(), Some(0xffff_ffff))));
                            m.ins.push(MI { txid, vout: ut.vout, seq: 0xffff_ffff, utxo: u, declared: ut.value });
                            ins.push(InState { sigs: vec![], fin: None });
                            applied = true;
                        }
                        _ => {}
                    }
                    if applied {
                        ctx.event(seq, "mutate", &what);
                        ctx.fault(&format!("mutate-after-sign({})", what));
                        last_mutation = what.clone();
                        shipped = None;
                    } else {
                        ctx.skip();
                    }
                }
                "ship" => {
                    let fmt = jstr(ev, "fmt");
                    let restored: Option<Transaction> = if fmt == "json" {
                        match lib!("to_json_string", tx.to_json_string()) {
                            Ok(s) => lib!("from_json_string", Transaction::from_json_string(&s)).ok(),
                            Err(_) => None,
                        }
                    } else {
                        match lib!("to_compact_bytes", tx.to_compact_bytes()) {
                            Ok(b) => lib!("from_compact_bytes", Transaction::from_compact_bytes(&b)).ok(),
                            Err(_) => None,
                        }
                    };
                    let faithful = match &restored {
                        Some(rx) => {
                            rx.to_bytes().ok() == tx.to_bytes().ok()
                                && (0..tx.get_ninputs()).all(|k| {
                                    let (a, b) = (tx.get_input(k), rx.get_input(k));
                                    match (a, b) {
                                        (Some(a), Some(b)) => a.get_satoshis() == b.get_satoshis() && a.get_locking_script_bytes() == b.get_locking_script_bytes(),
                                        _ => false,
                                    }
                                })
                        }
                        None => false,
                    };
                    if faithful {
                        ctx.event(seq, "ship", fmt);
                        ctx.fault(&format!("restart-{}", fmt));
                        ctx.probe("shipped");
                        shipped = restored;
                    } else {
                        ctx.probe("ship_not_faithful");
                        ctx.skip();
                    }
                }
                "validate" => {
                    let i = jusize(ev, "input");
                    if i >= m.ins.len() {
                        ctx.skip();
                        continue;
                    }
                    let ut = utxos[m.ins[i].utxo].clone();
                    ctx.probe(&format!("family_{}", ut.family));
                    if ut.sep_untaken {
                        ctx.probe("separator_unexecuted_present");
                    }
                    if ut.sep_class != "none" {
                        ctx.probe("separator_present");
                        ctx.probe(&format!("separator_{}", ut.sep_class));
                    }
                    // ---- expected verdict from the covered-view model
                    let mut why = String::new();
                    let mut expect = true;
                    let mut unmodelled = false;
                    let mut classes: Vec<String> = vec![];
                    let mut causes: Vec<String> = vec![];
                    match ins[i].fin.as_ref() {
                        None => {
                            expect = false;
                            why = "input was never finalised".into();
                            causes.push("never-finalised".into());
                        }
                        Some(f) => {
                            if !f.order_ok {
                                expect = false;
                                why = "signatures are not in key order".into();
                                classes.push("order".into());
                                causes.push("order".into());
                            }
                            let cur = tx.get_input(i);
                            let differs = cur.as_ref().map(|t| t.get_unlocking_script().to_bytes() != f.pristine_unl || t.get_locking_script_bytes().unwrap_or_default() != f.pristine_lock).unwrap_or(true);
                            if !f.tampered.is_empty() && !differs {
                                ctx.probe("tamper_restored_by_second_flip");
                            }
                            if !f.tampered.is_empty() && differs {
                                expect = false;
                                why = format!("tampered: {:?}", f.tampered);
                                classes.push(f.tampered.join("+"));
                                causes.push(format!("tampered:{}", f.tampered[0]));
                            }
                            let mut stale = false;
                            for s in &f.sigs {
                                let sr = &ins[i].sigs[*s];
                                if sr.byz {
                                    expect = false;
                                    why = "signature is over the byte-reversed digest".into();
                                    classes.push("byzantine".into());
                                    causes.push("reversed-digest-signature".into());
                                }
                                if !ut.keys.contains(&sr.key) {
                                    expect = false;
                                    why = "signature by a key that is not in the locking script".into();
                                    classes.push("wrong-signer".into());
                                    causes.push("wrong-signer".into());
                                }
                                match view(&m, i, sr.flag, &sr.sub, m.ins[i].declared) {
                                    Some(now) => {
                                        if now != sr.view {
                                            expect = false;
                                            stale = true;
                                            why = format!("a field covered by {} changed after signing (last mutation: {})", flag_name(sr.flag), last_mutation);
                                            classes.push(format!("covered-changed:{}", flag_name(sr.flag)));
                                            causes.push(format!("covered-changed[{}]:{}{}", view_diff(&sr.view, &now).join("+"), flag_name(sr.flag), if i > 0 { " idx>0" } else { " idx=0" }));
                                        } else {
                                            classes.push(format!("view-intact:{}", flag_name(sr.flag)));
                                        }
                                    }
                                    None => {
                                        // SINGLE whose output disappeared cannot happen (outputs are never removed)
                                        unmodelled = true;
                                    }
                                }
                            }
                            if stale {
                                ctx.probe("mutated_covered_field");
                            } else if last_mutation != "none" {
                                ctx.probe("mutated_uncovered_field");
                            }
                            if f.sigs.iter().any(|s| ins[i].sigs[*s].built != (m.ins.len(), m.outs.len())) {
                                ctx.probe("signed_before_build_complete");
                                ctx.nontrivial = true;
                            }
                        }
                    }
                    if unmodelled {
                        ctx.probe("validate_unmodelled");
                        ctx.skip();
                        continue;
                    }
                    ctx.event(seq, "validate", &format!("{}/{}/{}", ut.family, classes.join(","), expect));
                    if last_mutation != "none" || shipped.is_some() {
                        ctx.nontrivial = true;
                    }
                    ctx.probe(if expect { "validate_expect_accept" } else { "validate_expect_reject" });
                    ctx.state(&[crate::rng::fnv1a(ut.family.as_bytes()), ut.m as u64, ut.keys.len() as u64, crate::rng::fnv1a(ut.sep_class.as_bytes()), crate::rng::fnv1a(classes.join(",").as_bytes()), shipped.is_some() as u64, expect as u64]);
                    // ---- the real validator, on the live object and on the shipped copy
                    let mut verdicts: Vec<(&str, bool, String)> = vec![];
                    let mut objs: Vec<(&str, &Transaction)> = vec![("live", &tx)];
                    if let Some(s) = shipped.as_ref() {
                        objs.push(("shipped", s));
                        ctx.probe("validated_on_shipped_copy");
                    }
                    // the validator's debug trace goes to the process's stdout: a failing stdout must not change a verdict
                    let sf = crate::faults::StdoutFault::parse(jstr(ev, "stdout"), 64);
                    if let Some(f) = sf {
                        if crate::faults::stdout_fault(f) {
                            ctx.fault(f.name());
                            ctx.probe("validated_under_stdout_fault");
                        }
                    }
                    for (name, t) in objs {
                        let res = guard(|| -> Result<bool, String> {
                            let mut itp = Interpreter::from_transaction(t, i).map_err(|e| e.to_string())?;
                            itp.run().map_err(|e| e.to_string())?;
                            let st = itp.state();
                            Ok(st.stack.last().map(|top| top.iter().any(|b| *b != 0)).unwrap_or(false))
                        });
                        match res {
                            Ok(Ok(b)) => verdicts.push((name, b, String::new())),
                            Ok(Err(e)) => verdicts.push((name, false, e)),
                            Err(p) => {
                                if ctx.violate("panic", format!("panic@{}#validate", site_file(&p.site)), format!("validator panicked at {}: {}", p.site, p.msg)) {
                                    return;
                                }
                            }
                        }
                    }
                    // the validator crashes in the middle of the script and resumes from what it had made durable (the interpreter's
                    // JSON form): the verdict must be the one of the uninterrupted validator. Applied only when the restored
                    // object serialises to the same text again (what a JSON form leaves out on purpose is not judged here).
                    let persist_after = ju64(ev, "persist_after");
                    if jbool(ev, "persist") {
                        let res = guard(|| -> Result<Option<bool>, String> {
                            let mut itp = Interpreter::from_transaction(&tx, i).map_err(|e| e.to_string())?;
                            for _ in 0..persist_after {
                                match itp.next() {
                                    Some(Ok(_)) => {}
                                    Some(Err(e)) => return Err(e.to_string()),
                                    None => break,
                                }
                            }
                            let js = match serde_json::to_string(&itp) {
                                Ok(j) => j,
                                Err(_) => return Ok(None),
                            };
                            let mut back: Interpreter = match serde_json::from_str(&js) {
                                Ok(b) => b,
                                Err(_) => return Ok(None),
                            };
                            if serde_json::to_string(&back).map(|j| j != js).unwrap_or(true) {
                                return Ok(None);
                            }
                            back.run().map_err(|e| e.to_string())?;
                            let st = back.state();
                            Ok(Some(st.stack.last().map(|top| top.iter().any(|b| *b != 0)).unwrap_or(false)))
                        });
                        let persisted: Option<bool> = match res {
                            Ok(Ok(v)) => v,
                            Ok(Err(_)) => Some(false),
                            Err(p) => {
                                if ctx.violate("panic", format!("panic@{}#validate (persisted)", site_file(&p.site)), format!("validator panicked at {}: {}", p.site, p.msg)) {
                                    return;
                                }
                                None
                            }
                        };
                        match (persisted, verdicts.first()) {
                            (Some(pv), Some((_, live, _))) => {
                                ctx.probe("validated_with_crash_restart_of_the_interpreter");
                                ctx.fault("restart-json");
                                if pv != *live {
                                    if ctx.violate("mismatch", format!("verdict-differs-after-interpreter-restart:{} sep={}", ut.family, ut.sep_class), format!("the uninterrupted validator {} input {}, the one that was serialised to JSON after {} steps, restored and run on {} it", if *live { "accepts" } else { "rejects" }, i, persist_after, if pv { "accepts" } else { "rejects" })) {
                                        return;
                                    }
                                }
                            }
                            (None, _) => ctx.probe("interpreter_json_round_trip_not_faithful"),
                            _ => {}
                        }
                    }
                    if sf.is_some() {
                        crate::faults::stdout_heal();
                    }
                    for (name, got, err) in &verdicts {
                        ctx.observe_str(if *got { "accept" } else { "reject" });
                        if *got != expect {
                            // signature = direction + root cause, coarse enough to name one defect, fine enough to tell defects apart
                            let sig = if expect {
                                if ut.sep_class == "in-branch" || ut.sep_class == "after-branch" {
                                    format!("rejected-valid:separator-{}", ut.sep_class)
                                } else {
                                    let flags: Vec<&str> = classes.iter().filter_map(|c| c.strip_prefix("view-intact:")).collect();
                                    format!("rejected-valid:{} sep={} flags={}", ut.family, ut.sep_class, flags.join(","))
                                }
                            } else {
                                // an invalid spend was accepted: name every reason it should have been refused
                                let mut cs = causes.clone();
                                cs.sort();
                                cs.dedup();
                                format!("accepted-invalid:{}", cs.join(" & "))
                            };
                            if ctx.violate(if expect { "reject" } else { "accept" }, sig, format!("validator ({} object, stdout {}) {} input {} but the model expects {}: {} {}", name, sf.map(|f| f.name()).unwrap_or("healthy"), if *got { "accepted" } else { "rejected" }, i, if expect { "accept" } else { "reject" }, why, err)) {
                                return;
                            }
                        }
                    }
                    if verdicts.len() == 2 && verdicts[0].1 != verdicts[1].1 {
                        if ctx.violate("mismatch", format!("live-vs-shipped-verdict-differs:{}", ut.family), format!("live object: {} / shipped copy: {}", verdicts[0].1, verdicts[1].1)) {
                            return;
                        }
                    }
                }
                _ => ctx.skip(),
            }
            ctx.trace(|| format!("#{} {}", seq, ev));
        }
    }

    fn shrink_event_impl(&self, ev: &Event) -> Vec<Event> {
        let mut out = vec![];
        if jstr(ev, "op") == "setup" {
            if let Some(us) = ev.get("utxos").and_then(|u| u.as_array()) {
                for (k, u) in us.iter().enumerate() {
                    if u.get("seps").and_then(|s| s.as_array()).map(|a| !a.is_empty()).unwrap_or(false) {
                        let mut e = ev.clone();
                        e["utxos"][k]["seps"] = json!([]);
                        out.push(e);
                    }
                    if jbool(u, "sep_in_branch") {
                        let mut e = ev.clone();
                        e["utxos"][k]["sep_in_branch"] = json!(false);
                        out.push(e);
                    }
                    if jbool(u, "sep_untaken") {
                        let mut e = ev.clone();
                        e["utxos"][k]["sep_untaken"] = json!(false);
                        out.push(e);
                    }
                    if jbool(u, "verify") {
                        let mut e = ev.clone();
                        e["utxos"][k]["verify"] = json!(false);
                        out.push(e);
                    }
                    if jstr(u, "family") != "p2pk" {
                        let mut e = ev.clone();
                        e["utxos"][k]["family"] = json!("p2pk");
                        out.push(e);
                    }
                }
            }
        }
        if jstr(ev, "op") == "sign" && ju64(ev, "flag") != 0x41 {
            let mut e = ev.clone();
            e["flag"] = json!(0x41);
            out.push(e);
        }
        let _ = Value::Null;
        out
    }
}
