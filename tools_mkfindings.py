#!/usr/bin/env python3
"""Rebuilds the 'fixed' entries of known_findings.json from /repo's fix: commits and findings/<ID>-fixed-<commit>.json
(written by selftest/fixes.sh --save). 'known' entries are kept as they are."""
import json, subprocess, glob, os, re
kf = json.load(open('/verif/known_findings.json'))
known = [f for f in kf['findings'] if f['status'] == 'known']
fixed = []
log = subprocess.run(["git","-C","/repo","log","--reverse","--format=%h %s"],capture_output=True,text=True).stdout.splitlines()
for line in log:
    c, subj = line.split(' ',1)
    if not subj.startswith('fix:'): continue
    files = glob.glob(f'/verif/findings/*-fixed-{c}.json')
    for f in sorted(files):
        d = json.load(open(f))
        pid = d['property']
        fixed.append({"property": pid, "status": "fixed", "commit": c, "signature": d['violation']['signature'],
                      "what": f"fixed: property={pid} {c} {subj[4:].strip()}", "replay": os.path.relpath(f, '/verif')})
    if not files:
        print("warning: no stored trace for", c, subj)
kf['findings'] = known + fixed
json.dump(kf, open('/verif/known_findings.json','w'), indent=1)
print(len(known), "known,", len(fixed), "fixed")
