//! C05 — scenario `ecdsa-net`: a real signer whose randomised entry point draws from the scripted
//! OS-entropy seam, a real verifier, and reference peers (textbook verify, RFC 6979 + low-S signer,
//! ECDH) exchanging signatures over a channel that mispairs and replays them.

use crate::core::*;
use crate::refimpl as rf;
use crate::rng::Rng;
use crate::scen_digest::ref_hash;
use bsv::verif_hooks;
use bsv::{PrivateKey, PublicKey, Signature, SigningHash, ECDH, ECDSA};
use serde_json::{json, Value};

pub struct EcdsaNet;

const N_MINUS_1: &str = "fffffffffffffffffffffffffffffffebaaedce6af48a03bbfd25e8cd0364140";
const N_MINUS_2: &str = "fffffffffffffffffffffffffffffffebaaedce6af48a03bbfd25e8cd036413f";

fn gen_key(rng: &mut Rng) -> String {
    match rng.below(9) {
        0 => format!("{:064x}", 1),
        1 => format!("{:064x}", 2),
        2 => N_MINUS_1.to_string(),
        3 => N_MINUS_2.to_string(),
        4 => format!("{:064x}", 3),
        _ => {
            let mut b = rng.bytes(32);
            if rng.chance(1, 2) {
                b[0] &= 0x7f;
            } else {
                b[0] = 0xff;
                b[1] &= 0x7f; // close to but below n
                b[15] = 0;
            }
            b[31] |= 1;
            hx(&b)
        }
    }
}

fn entropy_kind(rng: &mut Rng) -> (Vec<u8>, &'static str) {
    match rng.below(7) {
        0 => (vec![0u8; 32], "entropy:zeros"),
        1 => (vec![0xffu8; 32], "entropy:ones"),
        2 => (hex::decode(rf::N_HEX).unwrap(), "entropy:ge_n"),
        3 => (hex::decode(N_MINUS_1).unwrap(), "entropy:n_minus_1"),
        4 => (vec![0xabu8; 32], "entropy:repeat"),
        _ => (rng.bytes(32), "entropy:uniform"),
    }
}

struct Slot {
    key: Vec<u8>,
    compressed: bool,
    msg: Vec<u8>,
    hash: String,
    /// Some(digest) when the slot was signed through the pre-hashed entry point with caller-chosen bytes
    raw: Option<Vec<u8>>,
    r: Vec<u8>,
    s: Vec<u8>,
    sig: Signature,
}

fn hash_enum(h: &str) -> SigningHash {
    if h == "sha256d" {
        SigningHash::Sha256d
    } else {
        SigningHash::Sha256
    }
}

fn digest_of(h: &str, msg: &[u8]) -> Vec<u8> {
    ref_hash(if h == "sha256d" { "sha256d" } else { "sha256" }, msg)
}

fn rev(v: &[u8]) -> Vec<u8> {
    let mut x = v.to_vec();
    x.reverse();
    x
}

impl Scenario for EcdsaNet {
    fn info(&self) -> ScenarioInfo {
        ScenarioInfo {
            property: "C05",
            name: "ecdsa-net",
            rule: "one case = one seeded signing-world history of 3-14 events: sign through every entry point (deterministic nonce in both byte-order modes, randomised nonce in both modes with the 32-byte OS-entropy draw scripted as uniform / zeros / ones / >= n / n-1 / repeat, caller nonce, pre-hashed digest, PrivateKey::sign_message; SHA-256 or double SHA-256; compressed or uncompressed key; keys biased to 1, 2, 3, n-1, n-2 and near n; messages from 0 bytes over the block boundaries to > 64 KiB, caller-chosen raw digests incl. 0 / n-1 / n / ff..ff), deliver to the real verifier (five verification entry points; the signature travels as an object or as DER / compact bytes that are parsed again) and to a textbook verifier, correctly paired (also with the key in the other SEC1 encoding) or mispaired (other message, other hash choice, other key, negated key, a well-formed off-curve key presented twice) or replayed, re-sign the same request under a different entropy script and different preceding events, and ECDH on both sides; non-trivial = an entropy draw, mispairing or replay fired; distinct = fingerprint of the (entry point, hash, mode, key class, entropy kind, delivery pairing, verifier) sequence",
            abstract_state: "(signing entry point, hash choice, nonce mode, key class, entropy kind, pairing, verifier entry point)",
            real: &["bsv::ECDSA::{sign_with_deterministic_k, sign_with_random_k (OsRng behind the cfg(bsv_verif) hook), sign_with_k, sign_digest_with_deterministic_k, verify_digest, verify_hashbuf}", "bsv::PrivateKey::sign_message", "bsv::Signature::{verify_message, r, s}", "bsv::PublicKey::{verify_message, is_valid_message}", "bsv::ECDH::derive_shared_key"],
            stub: &["RefVerifier: textbook ECDSA verification over k256 group arithmetic", "RefSigner: RFC 6979 HMAC-SHA256 (and the section 3.6 additional-data variant over SHA-256 or double SHA-256) nonce generation + textbook signing + low-S, written against sha2 only", "entropy source = script installed through the hook", "S7 (bit-for-bit RFC 6979 equality) and the reference half of ECDH are reference-model oracles without a simulator dimension of their own; they ride in this world because it already exists"],
            assumptions: &["reversed-nonce mode is modelled as RFC 6979 with the byte-reversed digest as h1; the message scalar is always the big-endian digest", "k256's scalar/point arithmetic is trusted by both sides"],
            required_probes: &["sign_det", "sign_det_reversed", "sign_random_k", "sign_with_k", "sign_digest", "sign_message", "entropy_isolation_checked", "mispaired_msg", "mispaired_hash", "mispaired_key", "replayed", "ecdh", "key_near_n", "uncompressed_key", "sign_raw_digest", "raw_digest_ge_n", "same_message_other_key", "verify_with_other_key_encoding", "solved_key_for_boundary_s"],
            quick_runs: 20000,
            thorough_runs: 1500000,
            rlimit_as: 4 << 30,
            alloc_abort_is_violation: true,
        }
    }

    fn generate(&self, rng: &mut Rng, tier: Tier, _index: u64) -> Plan {
        let keys: Vec<String> = (0..3).map(|_| gen_key(rng)).collect();
        let n = rng.range(3, 14);
        let mut events = vec![];
        let mut slots = 0u64;
        for _ in 0..n {
            match rng.weighted(&[45, 35, 8, 12]) {
                0 => {
                    let entry = *rng.pick(&["det", "det", "det_rev", "random_k", "random_k", "random_k_rev", "with_k", "digest", "sign_message"]);
                    let mlen = match rng.below(40) {
                        0..=5 => 0,
                        6..=12 => rng.range(1, 64) as usize,
                        13..=16 => *rng.pick(&[55usize, 56, 63, 64, 65, 119, 120, 127, 128]),
                        17..=19 => rng.range(64, 4096) as usize,
                        // around the 64 KiB mark (buffer / chunk boundaries in streaming code)
                        20 => rng.range(65_530, 65_545) as usize,
                        21 if tier == Tier::Thorough => rng.range(65_546, 300_000) as usize,
                        _ => rng.range(0, 200) as usize,
                    };
                    let (script, ekind) = entropy_kind(rng);
                    // the pre-hashed entry point accepts any 32 bytes, including values at and above the group order
                    let raw = if entry == "digest" && rng.chance(1, 2) {
                        Some(match rng.below(7) {
                            0 => rf::N_HEX.to_string(),
                            1 => "ff".repeat(32),
                            2 => N_MINUS_1.to_string(),
                            3 => "00".repeat(32),
                            4 => {
                                let mut b = hex::decode(rf::N_HEX).unwrap();
                                b[31] = b[31].wrapping_add(1 + rng.below(50) as u8);
                                hx(&b)
                            }
                            5 => {
                                let mut b = rng.bytes(32);
                                b[0] = 0xff;
                                b[1] = 0xff;
                                b[2] = 0xff;
                                b[3] = 0xff;
                                for k in 4..15 { b[k] = 0xff; }
                                hx(&b)
                            }
                            _ => hx(&rng.bytes(32)),
                        })
                    } else {
                        None
                    };
                    // caller-nonce signatures whose raw s lands exactly on a chosen value: the private key is SOLVED for
                    // (d = (s*k - z)/r), so the low-S boundary (n-1)/2 | (n+1)/2 and the extremes 1 | n-1 are actually reached
                    let solve = if entry == "with_k" && rng.chance(1, 3) { Some(*rng.pick(&["half", "half_plus_1", "half_minus_1", "one", "n_minus_1"])) } else { None };
                    events.push(json!({"op": "sign", "entry": entry, "raw_digest": raw, "solve_s": solve, "key": rng.pick(&keys).clone(), "compressed": rng.chance(2, 3), "hash": *rng.pick(&["sha256", "sha256d"]),
                        "msg": hx(&rng.bytes(mlen)), "k": gen_key(rng), "entropy": hx(&script), "ekind": ekind, "entropy2": hx(&rng.bytes(32))}));
                    slots += 1;
                }
                1 => {
                    if slots == 0 {
                        continue;
                    }
                    let pairing = *rng.pick(&["right", "right", "right", "right", "other_msg", "other_hash", "other_key", "neg_key", "offcurve_key"]);
                    events.push(json!({"op": "deliver", "slot": rng.below(slots), "pairing": pairing, "verifier": *rng.pick(&["verify_digest", "verify_hashbuf", "sig_verify_message", "pk_verify_message", "is_valid_message"]),
                        "other_key": gen_key(rng), "flip": rng.below(1 << 16), "other_encoding": rng.chance(1, 3), "wire": *rng.pick(&["", "", "der", "compact"]), "hybrid_encoding": rng.chance(1, 10)}));
                }
                2 => {
                    if slots == 0 {
                        continue;
                    }
                    // the same request again - under another entropy script, and sometimes with ANOTHER private key
                    // right after (nothing may be carried over from the previous signature of that message)
                    let other = if rng.chance(1, 2) { Some(gen_key(rng)) } else { None };
                    events.push(json!({"op": "resign", "slot": rng.below(slots), "entropy": hx(&rng.bytes(32)), "other_key": other}));
                }
                _ => events.push(json!({"op": "ecdh", "a": gen_key(rng), "b": gen_key(rng), "ac": rng.chance(1, 2), "bc": rng.chance(1, 2)})),
            }
        }
        Plan { config: json!({"events": n}), events }
    }

    fn execute(&self, plan: &Plan, ctx: &mut RunCtx) {
        let mut slots: Vec<Slot> = vec![];
        // what was asked for each slot, to re-issue the same request later (S4)
        let mut requests: Vec<Value> = vec![];
        for (seq, ev) in plan.events.iter().enumerate() {
            if ctx.stopped() {
                break;
            }
            ctx.seq = seq;
            ctx.crumb(jstr(ev, "op"));
            match jstr(ev, "op") {
                "sign" | "resign" => {
                    let is_resign = jstr(ev, "op") == "resign";
                    let req: Value = if is_resign {
                        let i = jusize(ev, "slot");
                        if i >= requests.len() {
                            ctx.skip();
                            continue;
                        }
                        let mut r = requests[i].clone();
                        r["entropy"] = ev["entropy"].clone();
                        if let Some(k) = ev.get("other_key").and_then(|k| k.as_str()) {
                            r["key"] = json!(k);
                        }
                        r
                    } else {
                        ev.clone()
                    };
                    let entry = jstr(&req, "entry").to_string();
                    let mut key = jhex(&req, "key");
                    if let Some(target) = req.get("solve_s").and_then(|x| x.as_str()) {
                        // d = (s_target * k - z) / r  (mod n)
                        let half = rf::scalar_exact(&hex::decode(rf::HALF_N_HEX).unwrap()).unwrap();
                        let one = k256::Scalar::ONE;
                        let st = match target {
                            "half" => half,
                            "half_plus_1" => half + one,
                            "half_minus_1" => half - one,
                            "one" => one,
                            _ => -one,
                        };
                        let hash0 = if entry == "sign_message" { "sha256".to_string() } else { jstr(&req, "hash").to_string() };
                        let z = rf::scalar_reduced(&digest_of(&hash0, &jhex(&req, "msg")));
                        let solved = rf::scalar_exact(&jhex(&req, "k")).and_then(|k| {
                            let rp = rf::pubkey_of(&rf::scalar_bytes(&k), true)?;
                            let r = rf::scalar_reduced(&rp[1..33]);
                            let rinv: Option<k256::Scalar> = Option::from(r.invert());
                            rinv.map(|ri| (st * k - z) * ri)
                        });
                        match solved {
                            Some(d) if !bool::from(elliptic_curve::Field::is_zero(&d)) => {
                                key = rf::scalar_bytes(&d);
                                ctx.probe("solved_key_for_boundary_s");
                            }
                            _ => {
                                ctx.skip();
                                continue;
                            }
                        }
                    }
                    if !rf::is_valid_secret(&key) {
                        ctx.skip();
                        continue;
                    }
                    let compressed = jbool(&req, "compressed");
                    let hash = if entry == "sign_message" { "sha256".to_string() } else { jstr(&req, "hash").to_string() };
                    let msg = jhex(&req, "msg");
                    let kk = jhex(&req, "k");
                    let script = jhex(&req, "entropy");
                    let kclass = if key[0] == 0xff { "near_n" } else if key[..31].iter().all(|b| *b == 0) { "tiny" } else { "mid" };
                    if kclass == "near_n" {
                        ctx.probe("key_near_n");
                    }
                    if !compressed {
                        ctx.probe("uncompressed_key");
                    }
                    ctx.event(seq, if is_resign { "resign" } else { "sign" }, &format!("{}/{}/{}/{}", entry, hash, kclass, compressed));
                    ctx.state(&[crate::rng::fnv1a(entry.as_bytes()), crate::rng::fnv1a(hash.as_bytes()), crate::rng::fnv1a(kclass.as_bytes()), compressed as u64, crate::rng::fnv1a(jstr(&req, "ekind").as_bytes())]);
                    let sk = match PrivateKey::from_bytes(&key) {
                        Ok(k) => k.compress_public_key(compressed),
                        Err(_) => {
                            ctx.skip();
                            continue;
                        }
                    };
                    let raw: Option<Vec<u8>> = if entry == "digest" { req.get("raw_digest").and_then(|x| x.as_str()).and_then(|h| hex::decode(h).ok()).filter(|d| d.len() == 32) } else { None };
                    let digest = match &raw {
                        Some(d) => {
                            ctx.probe("sign_raw_digest");
                            if d.as_slice() >= hex::decode(rf::N_HEX).unwrap().as_slice() {
                                ctx.probe("raw_digest_ge_n");
                            }
                            d.clone()
                        }
                        None => digest_of(&hash, &msg),
                    };
                    let he = hash_enum(&hash);
                    verif_hooks::install_entropy(&script, 0xfeed);
                    let res = guard(|| match entry.as_str() {
                        "det" => ECDSA::sign_with_deterministic_k(&sk, &msg, he, false).map_err(|e| e.to_string()),
                        "det_rev" => ECDSA::sign_with_deterministic_k(&sk, &msg, he, true).map_err(|e| e.to_string()),
                        "random_k" => ECDSA::sign_with_random_k(&sk, &msg, he, false).map_err(|e| e.to_string()),
                        "random_k_rev" => ECDSA::sign_with_random_k(&sk, &msg, he, true).map_err(|e| e.to_string()),
                        "with_k" => match PrivateKey::from_bytes(&kk) {
                            Ok(k) => ECDSA::sign_with_k(&sk, &k, &msg, he).map_err(|e| e.to_string()),
                            Err(e) => Err(e.to_string()),
                        },
                        "digest" => ECDSA::sign_digest_with_deterministic_k(&sk, &digest).map_err(|e| e.to_string()),
                        _ => sk.sign_message(&msg).map_err(|e| e.to_string()),
                    });
                    let drawn = verif_hooks::uninstall_entropy().map(|d| d.0).unwrap_or_default();
                    let sig = match res {
                        Ok(Ok(s)) => s,
                        Ok(Err(_)) if raw.as_ref().map(|d| d.iter().all(|b| *b == 0) || d.as_slice() >= hex::decode(rf::N_HEX).unwrap().as_slice()).unwrap_or(false) => {
                            // a caller-chosen digest of zero or not below the group order: refusing it returns no signature, which the
                            // statement allows ("every signature returned ...")
                            ctx.probe("sign_refused_degenerate_digest");
                            continue;
                        }
                        Ok(Err(e)) => {
                            if ctx.violate("reject", format!("sign-failed:{}", entry), format!("signing ({}) with a valid key failed: {}", entry, e)) {
                                return;
                            }
                            continue;
                        }
                        Err(p) => {
                            if ctx.violate("panic", format!("panic@{}#sign {}", site_file(&p.site), entry), format!("{}: {}", p.site, p.msg)) {
                                return;
                            }
                            continue;
                        }
                    };
                    let (r, s) = (sig.r(), sig.s());
                    let randomised = entry.starts_with("random_k");
                    // the run digest must be a function of the plan alone: a randomised signature is one only while every entropy
                    // read of the library passes the hooked source, which the statement does not promise - so it stays out
                    if !randomised {
                        ctx.observe(&r);
                        ctx.observe(&s);
                    }
                    ctx.probe(match entry.as_str() {
                        "det" => "sign_det",
                        "det_rev" => "sign_det_reversed",
                        "random_k" | "random_k_rev" => "sign_random_k",
                        "with_k" => "sign_with_k",
                        "digest" => "sign_digest",
                        _ => "sign_message",
                    });
                    // entropy accounting is recorded, not judged: the statement does not say how many bytes the randomised
                    // signer draws, nor that a deterministic one must not touch the source (only that it is reproducible)
                    if randomised {
                        ctx.fault(jstr(&req, "ekind"));
                        ctx.probe(if drawn.len() == 32 { "random_k_drew_32_bytes" } else { "random_k_drew_other_than_32_bytes" });
                    } else if !drawn.is_empty() {
                        ctx.probe("deterministic_signer_touched_entropy");
                    }
                    // S3 low-S
                    if rf::is_high(&s) {
                        if ctx.violate("high-s", format!("high-s:{}", entry), format!("{} produced s above half the group order: {}", entry, hx(&s))) {
                            return;
                        }
                    }
                    // S1: verifies at the real verifier and at the textbook verifier
                    let pk_bytes = rf::pubkey_of(&key, compressed).unwrap();
                    let pk = match guard(|| sk.to_public_key()) {
                        Ok(Ok(pk)) => Some(pk),
                        Ok(Err(e)) => {
                            if ctx.violate("reject", "public-key-of-valid-secret-refused".into(), format!("to_public_key failed for a secret in [1, n-1]: {}", e)) {
                                return;
                            }
                            None
                        }
                        Err(p) => {
                            if ctx.violate("panic", format!("panic@{}#to_public_key", site_file(&p.site)), format!("{}: {}", p.site, p.msg)) {
                                return;
                            }
                            None
                        }
                    };
                    if let Some(pk) = &pk {
                        if pk.to_bytes().unwrap_or_default() != pk_bytes {
                            if ctx.violate("mismatch", "pubkey-differs-from-reference".into(), "to_public_key differs from d*G".into()) {
                                return;
                            }
                        }
                        let ok_lib_g = if raw.is_some() { guard(|| ECDSA::verify_hashbuf(&digest, pk, &sig).unwrap_or(false)) } else { guard(|| ECDSA::verify_digest(&msg, pk, &sig, he).unwrap_or(false)) };
                        let ok_lib = match ok_lib_g {
                            Ok(b) => b,
                            Err(p) => {
                                if ctx.violate("panic", format!("panic@{}#verify own signature", site_file(&p.site)), format!("{}: {}", p.site, p.msg)) {
                                    return;
                                }
                                false
                            }
                        };
                        let ok_ref = rf::ecdsa_verify(&pk_bytes, &digest, &r, &s);
                        if !ok_lib || !ok_ref {
                            if ctx.violate("reject", format!("own-signature-does-not-verify:{} {}", entry, hash), format!("signature from {} ({}, {} key) over a {}-byte message: library verifier={}, textbook verifier={}", entry, hash, if compressed { "compressed" } else { "uncompressed" }, msg.len(), ok_lib, ok_ref)) {
                                return;
                            }
                        }
                    }
                    // S7 / S5: bit-for-bit reference
                    let x = key.clone();
                    let want: Option<(Vec<u8>, Vec<u8>)> = match entry.as_str() {
                        "det" | "sign_message" => {
                            let h1 = rf::scalar_bytes(&rf::scalar_reduced(&digest));
                            rf::ecdsa_sign(&x, &digest, &rf::rfc6979_k(&x, &h1, &[], "sha256"))
                        }
                        "det_rev" => {
                            let h1 = rf::scalar_bytes(&rf::scalar_reduced(&rev(&digest)));
                            rf::ecdsa_sign(&x, &digest, &rf::rfc6979_k(&x, &h1, &[], "sha256"))
                        }
                        "digest" => {
                            let h1 = rf::scalar_bytes(&rf::scalar_reduced(&digest));
                            rf::ecdsa_sign(&x, &digest, &rf::rfc6979_k(&x, &h1, &[], "sha256"))
                        }
                        "with_k" => rf::scalar_exact(&kk).and_then(|k| rf::ecdsa_sign(&x, &digest, &k)),
                        "random_k" | "random_k_rev" => {
                            if drawn.len() == 32 {
                                let hsrc = if entry == "random_k_rev" { digest.clone() } else { rev(&digest) };
                                let h1 = rf::scalar_bytes(&rf::scalar_reduced(&hsrc));
                                rf::ecdsa_sign(&x, &digest, &rf::rfc6979_k(&x, &h1, &drawn, &hash))
                            } else {
                                None
                            }
                        }
                        _ => None,
                    };
                    if let Some((wr, ws)) = want {
                        if randomised {
                            // how the randomised signer turns its draw into a nonce is an implementation choice; on the shipped
                            // code it is RFC 6979 with the draw as additional data, which is recorded as a probe only
                            ctx.probe(if wr == r && ws == s { "random_k_matches_rfc6979_additional_data_variant" } else { "random_k_differs_from_rfc6979_additional_data_variant" });
                        } else if wr != r || ws != s {
                            if ctx.violate("mismatch", format!("signature-differs-from-reference:{} {}", entry, hash), format!("(r,s) from {} differs from the independent RFC 6979 / textbook computation: r {} vs {}, s {} vs {}", entry, hx(&r), hx(&wr), hx(&s), hx(&ws))) {
                                return;
                            }
                        }
                    }
                    if is_resign {
                        // S4 reproducibility: same request, different entropy script, different history
                        let i = jusize(ev, "slot");
                        if slots[i].key != key {
                            // different signer for the same message: only the reference comparison above applies
                            ctx.probe("same_message_other_key");
                            continue;
                        }
                        ctx.probe("entropy_isolation_checked");
                        let same = slots[i].r == r && slots[i].s == s;
                        if !randomised && !same {
                            if ctx.violate("mismatch", format!("not-reproducible:{}", entry), format!("{} returned a different signature for the same request after other events and under a different entropy script", entry)) {
                                return;
                            }
                        }
                        if randomised && jhex(&requests[i], "entropy") != script {
                            // whether the randomised signer's output moves with the draw is not part of the statement: recorded only
                            ctx.probe(if same { "random_k_same_signature_under_other_draw" } else { "random_k_signature_moves_with_draw" });
                        }
                        continue;
                    }
                    requests.push(req.clone());
                    slots.push(Slot { key, compressed, msg, hash, raw, r, s, sig });
                }
                "deliver" => {
                    let i = jusize(ev, "slot");
                    if i >= slots.len() {
                        ctx.skip();
                        continue;
                    }
                    let sl = &slots[i];
                    let pairing = jstr(ev, "pairing");
                    // a slot signed over caller-chosen digest bytes can only be checked by the pre-hashed verifier
                    let verifier = if sl.raw.is_some() { "verify_hashbuf" } else { jstr(ev, "verifier") };
                    if sl.raw.is_some() && (pairing == "other_msg" || pairing == "other_hash") {
                        ctx.skip();
                        continue;
                    }
                    let mut msg = sl.msg.clone();
                    let mut hash = sl.hash.clone();
                    let mut vkey = sl.key.clone();
                    match pairing {
                        "other_msg" => {
                            if msg.is_empty() {
                                msg.push(0);
                            } else {
                                let p = jusize(ev, "flip") % msg.len();
                                msg[p] ^= 1 << (jusize(ev, "flip") % 8);
                            }
                            ctx.fault("mispair:message");
                            ctx.probe("mispaired_msg");
                        }
                        "other_hash" => {
                            hash = if hash == "sha256" { "sha256d".into() } else { "sha256".into() };
                            ctx.fault("mispair:hash");
                            ctx.probe("mispaired_hash");
                        }
                        "neg_key" => {
                            // the negated key n-d: same x coordinate, other y parity
                            vkey = match rf::scalar_exact(&sl.key) {
                                Some(d) => rf::scalar_bytes(&(-d)),
                                None => {
                                    ctx.skip();
                                    continue;
                                }
                            };
                            ctx.fault("mispair:key");
                            ctx.probe("mispaired_negated_key");
                        }
                        "other_key" => {
                            vkey = jhex(ev, "other_key");
                            if !rf::is_valid_secret(&vkey) || vkey == sl.key || rf::pubkey_of(&vkey, true) == rf::pubkey_of(&sl.key, true) {
                                ctx.skip();
                                continue;
                            }
                            // d and n-d share x but not the point; still a different key
                            ctx.fault("mispair:key");
                            ctx.probe("mispaired_key");
                        }
                        _ => {}
                    }
                    // algebraic degenerate case, not a defect: for a message scalar of 0 a signature by d is also a
                    // valid signature by n-d (u1 = 0, and -Q yields the same x); the statement cannot mean this pair
                    if pairing == "other_key" || pairing == "neg_key" {
                        let z = rf::scalar_reduced(&match &sl.raw {
                            Some(d) => d.clone(),
                            None => digest_of(&hash, &msg),
                        });
                        let neg = match (rf::scalar_exact(&vkey), rf::scalar_exact(&sl.key)) {
                            (Some(a), Some(b)) => a == -b,
                            _ => false,
                        };
                        if bool::from(elliptic_curve::Field::is_zero(&z)) && neg {
                            ctx.probe("skipped_zero_digest_negated_key");
                            ctx.skip();
                            continue;
                        }
                    }
                    // entry points fixed to SHA-256 can only express the hash choice SHA-256
                    let fixed_sha256 = matches!(verifier, "sig_verify_message" | "pk_verify_message" | "is_valid_message");
                    if fixed_sha256 {
                        hash = "sha256".into();
                    }
                    let offcurve = pairing == "offcurve_key";
                    let expect = msg == sl.msg && hash == sl.hash && vkey == sl.key && !offcurve;
                    ctx.event(seq, "deliver", &format!("{}/{}/{}", pairing, verifier, expect));
                    ctx.fault("replay");
                    ctx.probe("replayed");
                    // the signer's public key is a point: presenting it in the other SEC1 encoding changes nothing
                    let enc = if jbool(ev, "other_encoding") { !sl.compressed } else { sl.compressed };
                    if jbool(ev, "other_encoding") {
                        ctx.probe("verify_with_other_key_encoding");
                    }
                    let mut pkb = rf::pubkey_of(&vkey, enc).unwrap();
                    if offcurve {
                        // a well-formed SEC1 encoding whose x is not on the curve (the constructor only looks at the format): nothing
                        // verifies under it, however often it is presented and whatever was verified before
                        pkb = rf::pubkey_of(&vkey, true).unwrap();
                        let mut tries = 0;
                        while rf::point_from_sec1(&pkb).is_some() && tries < 64 {
                            pkb[32] = pkb[32].wrapping_add(1);
                            tries += 1;
                        }
                        ctx.fault("mispair:key");
                        ctx.probe("verified_under_off_curve_key");
                    }
                    // the textbook verifier always gets the canonical encoding of the same point
                    let mut hybrid_pkb: Option<Vec<u8>> = None;
                    if jbool(ev, "hybrid_encoding") && !offcurve {
                        // SEC1 hybrid form (06/07 || X || Y): a library may refuse it, but if it takes it, it is the same point
                        let u = rf::pubkey_of(&vkey, false).unwrap();
                        let mut h = u.clone();
                        h[0] = 0x06 | (u[64] & 1);
                        if PublicKey::from_bytes(&h).is_ok() {
                            ctx.probe("hybrid_key_encoding_accepted");
                            hybrid_pkb = Some(h);
                        } else {
                            ctx.probe("hybrid_key_encoding_refused");
                        }
                    }
                    let pk = match PublicKey::from_bytes(hybrid_pkb.as_ref().unwrap_or(&pkb)) {
                        Ok(p) => p,
                        Err(_) => {
                            ctx.skip();
                            continue;
                        }
                    };
                    let digest = match &sl.raw {
                        Some(d) => d.clone(),
                        None => digest_of(&hash, &msg),
                    };
                    let he = hash_enum(&hash);
                    // the signature travels as an object, or as DER / compact bytes that the receiving side parses again
                    let wire = jstr(ev, "wire");
                    let travelled: Option<Signature> = match wire {
                        "der" => guard(|| Signature::from_der(&sl.sig.to_der_bytes()).ok()).ok().flatten(),
                        "compact" => guard(|| Signature::from_compact_bytes(&sl.sig.to_compact_bytes(None)).ok()).ok().flatten(),
                        _ => None,
                    };
                    if !wire.is_empty() {
                        ctx.probe(if travelled.is_some() { "signature_travelled_as_bytes" } else { "signature_bytes_not_reparsed" });
                    }
                    let sig = travelled.as_ref().unwrap_or(&sl.sig);
                    // an off-curve key is presented twice in a row (the second call meets whatever the first one left behind)
                    let mut got = guard(|| false);
                    for _ in 0..if offcurve { 2 } else { 1 } {
                        got = guard(|| match verifier {
                            "verify_hashbuf" => ECDSA::verify_hashbuf(&digest, &pk, sig).unwrap_or(false),
                            "sig_verify_message" => sig.verify_message(&msg, &pk),
                            "pk_verify_message" => pk.verify_message(&msg, sig).unwrap_or(false),
                            "is_valid_message" => pk.is_valid_message(&msg, sig),
                            _ => ECDSA::verify_digest(&msg, &pk, sig, he).unwrap_or(false),
                        });
                        if !matches!(got, Ok(false)) {
                            break;
                        }
                    }
                    let got = match got {
                        Ok(g) => g,
                        Err(p) => {
                            if ctx.violate("panic", format!("panic@{}#{}", site_file(&p.site), verifier), format!("{}: {}", p.site, p.msg)) {
                                return;
                            }
                            continue;
                        }
                    };
                    let got_ref = rf::ecdsa_verify(&pkb, &digest, &sl.r, &sl.s);
                    ctx.observe_str(if got { "accept" } else { "reject" });
                    if got != expect || got_ref != expect {
                        let class = if expect { "reject" } else { "accept" };
                        if ctx.violate(class, format!("verify-{}:{} pairing={}", if expect { "rejected-valid" } else { "accepted-invalid" }, verifier, pairing), format!("verifier {} returned {} (textbook verifier {}) for pairing={} but the signature {} valid for that (message, hash, key)", verifier, got, got_ref, pairing, if expect { "is" } else { "is not" })) {
                            return;
                        }
                    }
                }
                "ecdh" => {
                    let (a, b) = (jhex(ev, "a"), jhex(ev, "b"));
                    if !rf::is_valid_secret(&a) || !rf::is_valid_secret(&b) {
                        ctx.skip();
                        continue;
                    }
                    ctx.event(seq, "ecdh", "");
                    ctx.probe("ecdh");
                    let (ac, bc) = (jbool(ev, "ac"), jbool(ev, "bc"));
                    let r = guard(|| -> Result<(Vec<u8>, Vec<u8>), String> {
                        let ka = PrivateKey::from_bytes(&a).map_err(|e| e.to_string())?.compress_public_key(ac);
                        let kb = PrivateKey::from_bytes(&b).map_err(|e| e.to_string())?.compress_public_key(bc);
                        let pa = ka.to_public_key().map_err(|e| e.to_string())?;
                        let pb = kb.to_public_key().map_err(|e| e.to_string())?;
                        Ok((ECDH::derive_shared_key(&ka, &pb).map_err(|e| e.to_string())?, ECDH::derive_shared_key(&kb, &pa).map_err(|e| e.to_string())?))
                    });
                    match r {
                        Ok(Ok((x1, x2))) => {
                            let want = rf::ecdh_x(&a, &rf::pubkey_of(&b, true).unwrap()).unwrap_or_default();
                            ctx.observe(&x1);
                            if x1 != x2 || x1 != want {
                                if ctx.violate("mismatch", "ecdh-asymmetric-or-wrong".into(), format!("derive_shared_key(a,B)={} derive_shared_key(b,A)={} independent x(a*B)={}", hx(&x1), hx(&x2), hx(&want))) {
                                    return;
                                }
                            }
                        }
                        Ok(Err(e)) => {
                            if ctx.violate("reject", "ecdh-failed".into(), format!("ECDH with valid keys failed: {}", e)) {
                                return;
                            }
                        }
                        Err(p) => {
                            if ctx.violate("panic", format!("panic@{}#ecdh", site_file(&p.site)), format!("{}: {}", p.site, p.msg)) {
                                return;
                            }
                        }
                    }
                }
                _ => ctx.skip(),
            }
        }
        let _ = verif_hooks::uninstall_entropy();
    }

    fn shrink_event(&self, ev: &Event) -> Vec<Event> {
        let mut out = vec![];
        if jstr(ev, "op") == "sign" {
            let m = jhex(ev, "msg");
            if !m.is_empty() {
                let mut e = ev.clone();
                e["msg"] = json!("");
                out.push(e);
            }
            let mut e = ev.clone();
            e["key"] = json!(format!("{:064x}", 1));
            out.push(e);
            let mut e = ev.clone();
            e["entropy"] = json!("00".repeat(32));
            out.push(e);
            if !jbool(ev, "compressed") {
                let mut e = ev.clone();
                e["compressed"] = json!(true);
                out.push(e);
            }
            if jstr(ev, "hash") != "sha256" {
                let mut e = ev.clone();
                e["hash"] = json!("sha256");
                out.push(e);
            }
        }
        out
    }
}
