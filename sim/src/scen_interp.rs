//! C16 — scenario `interp-driver`: the interpreter step machine under arbitrary driver schedules
//! (next / run / fork / accessors), with the worker's stdout failing and healing underneath it.
//!
//! Reference = single-stepping a fresh interpreter over the same program in a healthy
//! environment. Every driver schedule must observe the reference's states, step for step, and
//! end in the reference's outcome; after an error the stacks are those of the last good state.

use crate::core::*;
use crate::faults::{self, StdoutFault};
use crate::rng::Rng;
use bsv::{Interpreter, OpCodes, PrivateKey, Script, ScriptBit, SigHash, Transaction, TxIn, TxOut};
use serde_json::{json, Value};

pub struct InterpDriver;

// ---------------------------------------------------------------------------------------------
// program <-> JSON

fn opcode(n: u64) -> Option<OpCodes> {
    use std::convert::TryFrom;
    let _ = u8::try_from(n).ok()?;
    num_from_u8(n as u8)
}

fn num_from_u8(b: u8) -> Option<OpCodes> {
    <OpCodes as num_traits::FromPrimitive>::from_u8(b)
}

fn bits_from_json(v: &Value, sigs: &dyn Fn(&Value) -> Vec<u8>) -> Option<Vec<ScriptBit>> {
    let arr = v.as_array()?;
    let mut out = vec![];
    for b in arr {
        if let Some(n) = b.as_u64() {
            out.push(ScriptBit::OpCode(opcode(n)?));
        } else if let Some(h) = b.get("p") {
            out.push(ScriptBit::Push(hex::decode(h.as_str()?).ok()?));
        } else if let Some(code) = b.get("pd") {
            out.push(ScriptBit::PushData(opcode(code.as_u64()?)?, hex::decode(b.get("d")?.as_str()?).ok()?));
        } else if let Some(code) = b.get("if") {
            let pass = bits_from_json(b.get("t")?, sigs)?;
            let fail = match b.get("f") {
                Some(Value::Null) | None => None,
                Some(f) => Some(bits_from_json(f, sigs)?),
            };
            out.push(ScriptBit::If { code: opcode(code.as_u64()?)?, pass, fail });
        } else if let Some(h) = b.get("cb") {
            out.push(ScriptBit::Coinbase(hex::decode(h.as_str()?).ok()?));
        } else if b.get("sig").is_some() {
            out.push(ScriptBit::Push(sigs(b)));
        } else {
            return None;
        }
    }
    Some(out)
}

fn count_bits(bits: &[ScriptBit]) -> usize {
    bits.iter()
        .map(|b| match b {
            ScriptBit::If { pass, fail, .. } => 1 + count_bits(pass) + fail.as_ref().map(|f| count_bits(f)).unwrap_or(0),
            _ => 1,
        })
        .sum()
}

fn bit_class(b: Option<&ScriptBit>) -> u64 {
    match b {
        None => 0,
        Some(ScriptBit::Push(_)) | Some(ScriptBit::PushData(_, _)) => 1,
        Some(ScriptBit::If { .. }) => 2,
        Some(ScriptBit::Coinbase(_)) => 3,
        Some(ScriptBit::OpCode(o)) => {
            let n = *o as u8;
            match n {
                0 | 79..=96 => 4,
                107..=125 => 5,
                126..=134 => 6,
                135..=165 => 7,
                166..=170 => 8,
                171..=175 => 9,
                _ => 10,
            }
        }
    }
}

/// Resource guard: C16 does not bound memory, so programs whose next step would allocate
/// hundreds of MiB (huge shift of a non-zero value, NUM2BIN to a huge length, CAT/MUL of very
/// large operands) are dropped by the reference pass instead of being executed.
fn resource_risk(bit: Option<&ScriptBit>, stack: &[Vec<u8>]) -> bool {
    fn small_num(v: &[u8]) -> Option<i64> {
        if v.len() > 4 {
            return None;
        }
        let mut x: i64 = 0;
        for (i, b) in v.iter().enumerate() {
            let b = if i == v.len() - 1 { b & 0x7f } else { *b };
            x |= (b as i64) << (8 * i);
        }
        Some(x)
    }
    let top = stack.last();
    let second = if stack.len() >= 2 { stack.get(stack.len() - 2) } else { None };
    // with the per-step requests capped below and the live stacks capped here, no legitimate step comes near the 1 GiB
    // allocator budget: whatever still exhausts it is runaway allocation and is judged (abort:alloc is a violation)
    if stack.iter().map(|s| s.len() + 32).sum::<usize>() > 48 << 20 {
        return true;
    }
    match bit {
        Some(ScriptBit::OpCode(OpCodes::OP_LSHIFT)) => match (top, second) {
            (Some(a), Some(b)) => a.iter().any(|x| *x != 0) && small_num(b).map(|n| n > 1 << 25).unwrap_or(false),
            _ => false,
        },
        Some(ScriptBit::OpCode(OpCodes::OP_NUM2BIN)) => top.and_then(|t| small_num(t)).map(|n| n > 1 << 22).unwrap_or(false),
        Some(ScriptBit::OpCode(OpCodes::OP_CAT)) | Some(ScriptBit::OpCode(OpCodes::OP_MUL)) => match (top, second) {
            (Some(a), Some(b)) => a.len() + b.len() > 1 << 20,
            _ => false,
        },
        Some(ScriptBit::OpCode(OpCodes::OP_DUP)) | Some(ScriptBit::OpCode(OpCodes::OP_2DUP)) | Some(ScriptBit::OpCode(OpCodes::OP_3DUP)) => stack.iter().map(|s| s.len()).sum::<usize>() > 8 << 20,
        _ => false,
    }
}

// ---------------------------------------------------------------------------------------------
// reference trace

#[derive(Clone, PartialEq, Debug)]
struct Snap {
    stack: Vec<Vec<u8>>,
    alt: Vec<Vec<u8>>,
}

fn snap(i: &Interpreter) -> Snap {
    let s = i.state();
    Snap { stack: s.stack.clone(), alt: s.alt_stack.clone() }
}

#[derive(Clone, Debug)]
enum Outcome {
    Finished,
    Err(String),
}

/// outcomes are compared as a class: the statement speaks of "an error", not of its text
impl PartialEq for Outcome {
    fn eq(&self, o: &Outcome) -> bool {
        matches!((self, o), (Outcome::Finished, Outcome::Finished) | (Outcome::Err(_), Outcome::Err(_)))
    }
}

struct RefTrace {
    states: Vec<Snap>, // states[j] = after j successful steps
    outcome: Outcome,
    bits_at: Vec<u64>, // class of the bit executed at step j
}

fn opname(b: Option<&ScriptBit>) -> String {
    match b {
        Some(ScriptBit::OpCode(o)) => format!("{}", o),
        Some(ScriptBit::Push(_)) => "push".into(),
        Some(ScriptBit::PushData(_, _)) => "pushdata".into(),
        Some(ScriptBit::If { code, .. }) => format!("{}", code),
        Some(ScriptBit::Coinbase(_)) => "coinbase-bit".into(),
        None => "end".into(),
    }
}

struct World {
    script: Script,
    tx: Option<(Transaction, usize)>,
    /// third public constructor: transaction context plus the program's bits handed over directly
    via_bits: bool,
}

impl World {
    fn build(&self) -> Result<Interpreter, String> {
        match &self.tx {
            None => Ok(Interpreter::from_script(&self.script)),
            Some((tx, idx)) if self.via_bits => Ok(Interpreter::from_transaction_and_script_bits(tx.clone(), *idx, self.script.to_script_bits())),
            Some((tx, idx)) => Interpreter::from_transaction(tx, *idx).map_err(|e| e.to_string()),
        }
    }
}

impl InterpDriver {
    fn operand(rng: &mut Rng) -> String {
        let k = rng.below(27);
        let b: Vec<u8> = match k {
            0 => vec![],
            1 => vec![0x80],
            2 => vec![0x00],
            3 => vec![0x01],
            4 => vec![0x81],
            5 => vec![0x7f],
            6 => vec![0xff],
            7 => vec![0x80, 0x00],
            8 => vec![0x00, 0x80],
            9 => vec![0xff, 0x7f],
            10 => vec![0xff, 0xff],
            11 => vec![0xff, 0xff, 0xff, 0x7f],
            12 => vec![0xff, 0xff, 0xff, 0xff],
            13 => vec![0x00, 0x00, 0x00, 0x80, 0x00],
            14 => vec![0x01, 0x00],
            15 => vec![0x01, 0x00, 0x00, 0x00, 0x00],
            16 => rng.bytes(520),
            17 => {
                if rng.chance(1, 60) {
                    // elements around the 8- and 16-bit length boundaries (PUSHDATA1/2/4 encodings, SPLIT / CAT / SIZE operands)
                    let n = *rng.pick(&[255usize, 256, 257, 65_535, 65_536, 65_537, 70_000]);
                    rng.bytes(n)
                } else if rng.chance(1, 8) {
                    rng.bytes(4096)
                } else {
                    rng.bytes(33)
                }
            }
            18 => vec![rng.below(20) as u8],
            19 => vec![rng.below(20) as u8 | 0x80],
            20 => {
                let n = rng.range(1, 8) as usize;
                rng.bytes(n)
            }
            21 => rng.bytes(20),
            22 => rng.bytes(32),
            23 => vec![0x00, 0x10], // 4096
            24 => vec![0x00, 0x00, 0x01], // 65536
            25 => match rng.below(4) {
                0 => vec![0x00, 0x00, 0x00, 0x80, 0x80], // -2^31 (only representable in 5 bytes)
                1 => vec![0x00, 0x00, 0x00, 0x80, 0x00], // +2^31
                2 => vec![0x01, 0x00, 0x00, 0x80, 0x80], // -2^31-1
                _ => vec![0x00, 0x00, 0x00, 0x80],       // negative zero, 4 bytes
            },
            _ => vec![rng.range(2, 16) as u8],
        };
        hx(&b)
    }

    /// a script number of at most 4 bytes (what the arithmetic opcodes accept)
    fn num_bit(rng: &mut Rng) -> Value {
        let b: Vec<u8> = match rng.below(14) {
            0 => vec![],
            1 => vec![0x01],
            2 => vec![0x81],
            3 => vec![0x7f],
            4 => vec![0xff, 0x7f],
            5 => vec![0xff, 0xff, 0xff, 0x7f],
            6 => vec![0xff, 0xff, 0xff, 0xff],
            7 => vec![0x80],
            8 => vec![0x00, 0x01],
            9 => vec![rng.below(8) as u8 + 1],
            10 => vec![rng.below(127) as u8 + 1, rng.below(127) as u8 + 1],
            11 => vec![0x00, 0x00, 0x00, 0x80, 0x80], // -2^31: a bigint operand the 4-byte number range cannot hold
            12 => vec![0x00, 0x00, 0x00, 0x80, 0x00], // +2^31
            _ => vec![rng.range(2, 40) as u8],
        };
        if b.is_empty() {
            json!(0)
        } else {
            json!({"p": hx(&b)})
        }
    }

    fn push_bit(rng: &mut Rng) -> Value {
        let h = Self::operand(rng);
        let n = h.len() / 2;
        if n == 0 && rng.chance(1, 2) {
            return json!(0);
        }
        if n <= 75 {
            if rng.chance(1, 10) {
                json!({"pd": 76, "d": h})
            } else {
                json!({"p": h})
            }
        } else if n <= 255 {
            json!({"pd": 76, "d": h})
        } else if n <= 65_535 {
            json!({"pd": 77, "d": h})
        } else {
            json!({"pd": 78, "d": h})
        }
    }

    fn arity(op: u8) -> usize {
        match op {
            0 | 79..=97 | 116 | 171 | 176..=185 | 106 => 0,
            105 | 107 | 115 | 117 | 118 | 130 | 131 | 139..=146 | 166..=170 | 129 => 1,
            119 | 120 | 124 | 125 | 109 | 110 | 126 | 127 | 128 | 132..=136 | 147..=164 | 172 | 173 | 121 | 122 => 2,
            123 | 111 | 165 => 3,
            112 | 114 => 4,
            113 => 6,
            174 | 175 => 5,
            _ => 1,
        }
    }

    fn gen_block(rng: &mut Rng, enabled: &[u8], depth: u32, budget: &mut i32, growth: &mut i32, with_tx: bool, reparsed: bool, valid_pct: u64) -> Vec<Value> {
        let mut out = vec![];
        let n = rng.range(1, if depth == 0 { 14 } else { 4 });
        for _ in 0..n {
            if *budget <= 0 {
                break;
            }
            *budget -= 1;
            match rng.weighted(&[40, 14, 14, 10, if with_tx { 10 } else { 1 }, 3, 1, 12, 6, 5]) {
                0 => {
                    // targeted: k operands then an opcode
                    let op = *rng.pick(enabled);
                    if matches!(op, 149 | 152 | 126 | 141) {
                        if *growth <= 0 {
                            continue;
                        }
                        *growth -= 1;
                    }
                    let ar = Self::arity(op);
                    let well_formed = rng.chance(valid_pct, 100);
                    let k = if well_formed { ar as u64 } else { rng.range(0, ar as u64 + 1) };
                    let numeric = matches!(op, 121 | 122 | 127 | 128 | 139..=165);
                    let mut last: Option<Value> = None;
                    for j in 0..k {
                        let b = if well_formed && numeric {
                            Self::num_bit(rng)
                        } else if well_formed && matches!(op, 136 | 157) && j == k - 1 && last.is_some() {
                            last.clone().unwrap()
                        } else {
                            Self::push_bit(rng)
                        };
                        last = Some(b.clone());
                        out.push(b);
                    }
                    out.push(json!(op));
                }
                1 if !reparsed && rng.chance(1, 8) => {
                    // a constructed push bit the parsers never produce: the opcode and the payload length need not agree
                    let n = *rng.pick(&[0usize, 1, 75, 76, 255, 256, 300, 520]);
                    out.push(json!({"pd": *rng.pick(&[76u64, 76, 77, 78, 0, 81, 97, 118, 172, 255]), "d": hx(&rng.bytes(n))}));
                }
                1 => out.push(Self::push_bit(rng)),
                9 => {
                    // standard templates with right and wrong data: <x> DUP HASH160 <20> EQUALVERIFY [CHECKSIG],
                    // <x> HASH160 <20> EQUAL, <x> SHA256 <32> EQUALVERIFY, <x> HASH256 <32> EQUAL
                    let xl = *rng.pick(&[33usize, 33, 65, 20, 1, 0]);
                    let x = rng.bytes(xl);
                    let right = rng.chance(1, 2);
                    if rng.chance(5, 6) {
                        out.push(json!({"p": hx(&x)}));
                    }
                    let (hop, hname, hl) = *rng.pick(&[(169u64, "hash160", 20usize), (169, "hash160", 20), (168, "sha256", 32), (170, "sha256d", 32), (166, "ripemd160", 20), (167, "sha1", 20)]);
                    let mut h = crate::scen_digest::ref_hash(hname, &x);
                    if !right {
                        match rng.below(3) {
                            0 => h[0] ^= 1,
                            1 => h = rng.bytes(hl),
                            _ => {
                                let l = *rng.pick(&[19usize, 21, 0, 32]);
                                h = rng.bytes(l);
                            }
                        }
                    }
                    let p2pkh = hop == 169 && rng.chance(2, 3);
                    if p2pkh {
                        out.push(json!(118));
                    }
                    out.push(json!(hop));
                    out.push(if rng.chance(1, 8) && !reparsed { json!({"pd": 76, "d": hx(&h)}) } else { json!({"p": hx(&h)}) });
                    out.push(json!(if p2pkh || rng.chance(1, 2) { 136 } else { 135 }));
                    if p2pkh && rng.chance(1, 2) {
                        out.push(json!(*rng.pick(&[172u64, 173])));
                    }
                }
                2 => {
                    // conditional
                    if depth >= 6 {
                        continue;
                    }
                    if rng.chance(4, 5) {
                        out.push(Self::push_bit(rng));
                    }
                    let code = *rng.pick(&[99u64, 99, 99, 100, 100, 101, 102]);
                    let t = Self::gen_block(rng, enabled, depth + 1, budget, growth, with_tx, reparsed, valid_pct);
                    let f = if rng.chance(1, 2) { Value::Array(Self::gen_block(rng, enabled, depth + 1, budget, growth, with_tx, reparsed, valid_pct)) } else { Value::Null };
                    let t = if rng.chance(1, 10) { vec![] } else { t };
                    out.push(json!({"if": code, "t": t, "f": f}));
                }
                3 => {
                    let op = *rng.pick(enabled);
                    if matches!(op, 149 | 152 | 126 | 141) {
                        if *growth <= 0 {
                            continue;
                        }
                        *growth -= 1;
                    }
                    out.push(json!(op));
                }
                4 => {
                    // signature check snippets
                    let well_formed = rng.chance(valid_pct, 100);
                    let kinds: &[&str] = if well_formed { &["valid"] } else { &["valid", "valid", "wrongkey", "truncated", "badflag", "empty", "garbage"] };
                    let flag = *rng.pick(&crate::scen_txhist::FLAGS);
                    if rng.chance(2, 3) {
                        let key = rng.below(3);
                        out.push(json!({"sig": *rng.pick(kinds), "key": key, "flag": flag}));
                        out.push(if well_formed { json!({"sig": "pubkey", "key": key, "compressed": rng.chance(1, 2)}) } else { Self::pubkey_bit(rng) });
                        out.push(json!(*rng.pick(&[172u64, 172, 173])));
                    } else {
                        let nkeys = rng.range(0, 3);
                        let nsig = rng.range(0, 3);
                        if rng.chance(5, 6) {
                            out.push(json!(0));
                        }
                        let (nkeys, nsig) = if well_formed { (nkeys.max(1), nsig.clamp(1, nkeys.max(1))) } else { (nkeys, nsig) };
                        for j in 0..nsig {
                            out.push(json!({"sig": *rng.pick(kinds), "key": if well_formed { j } else { rng.below(3) }, "flag": flag}));
                        }
                        out.push(if rng.chance(5, 6) { json!(80 + nsig.max(1)) } else { Self::push_bit(rng) });
                        for j in 0..nkeys {
                            out.push(if well_formed { json!({"sig": "pubkey", "key": j, "compressed": true}) } else { Self::pubkey_bit(rng) });
                        }
                        out.push(if rng.chance(5, 6) { json!(80 + nkeys.max(1)) } else { Self::push_bit(rng) });
                        out.push(json!(*rng.pick(&[174u64, 174, 175])));
                    }
                }
                5 if with_tx && rng.chance(1, 3) => {
                    // wide CHECKMULTISIG: many keys / signatures, usually failing somewhere after most operands were popped
                    let nkeys = *rng.pick(&[4u64, 16, 20, 21, 40, 42]);
                    let nsig = *rng.pick(&[0u64, 1, 1, 2, 20]).min(&nkeys);
                    out.push(json!(0));
                    for j in 0..nsig {
                        out.push(if rng.chance(1, 2) { json!({"sig": *rng.pick(&["valid", "garbage", "empty", "badflag"]), "key": j % 3, "flag": 0x41}) } else { Self::push_bit(rng) });
                    }
                    out.push(json!({"p": hx(&[nsig as u8])}));
                    for j in 0..nkeys {
                        out.push(if rng.chance(1, 3) { Self::pubkey_bit(rng) } else { json!({"sig": "pubkey", "key": j % 3, "compressed": true}) });
                    }
                    out.push(json!({"p": hx(&[nkeys as u8])}));
                    out.push(json!(*rng.pick(&[174u64, 175])));
                }
                5 => {
                    // pseudo / template / reserved opcodes and bare control codes
                    // bare PUSHDATA opcodes only where the program is never re-parsed from bytes
                    // (a re-parse turns them into length-prefixed pushes: the parser is C09's subject)
                    if reparsed {
                        out.push(json!(*rng.pick(&[251u64, 252, 253, 254, 255, 186, 80, 98, 137, 138, 177, 178])));
                    } else {
                        out.push(json!(*rng.pick(&[251u64, 252, 253, 254, 255, 186, 80, 98, 137, 138, 103, 104, 177, 178, 99, 100, 76, 77, 78])));
                    }
                }
                7 => {
                    // opcode chain: enough operands for the first opcode, then 2-4 opcodes in a row (what one leaves is what
                    // the next one finds): sequences like SPLIT CAT, CAT SIZE, DUP HASH160 EQUALVERIFY
                    let n_ops = rng.range(2, 4);
                    let first = *rng.pick(enabled);
                    for _ in 0..Self::arity(first) + rng.below(3) as usize {
                        out.push(if rng.chance(1, 2) { Self::num_bit(rng) } else { Self::push_bit(rng) });
                    }
                    out.push(json!(first));
                    for _ in 1..n_ops {
                        let op = *rng.pick(enabled);
                        if matches!(op, 149 | 152 | 126 | 141) {
                            if *growth <= 0 {
                                continue;
                            }
                            *growth -= 1;
                        }
                        if rng.chance(1, 3) {
                            out.push(Self::push_bit(rng));
                        }
                        out.push(json!(op));
                    }
                }
                8 => {
                    // alt stack round trips with something in between: x TOALTSTACK <ops> FROMALTSTACK
                    let k = rng.range(1, 3);
                    for _ in 0..k {
                        out.push(Self::push_bit(rng));
                        out.push(json!(107));
                    }
                    for _ in 0..rng.below(3) {
                        if rng.chance(1, 2) {
                            out.push(Self::push_bit(rng));
                        } else {
                            out.push(json!(*rng.pick(enabled)));
                        }
                    }
                    for _ in 0..rng.range(0, k + 1) {
                        out.push(json!(108));
                    }
                }
                _ => {
                    // Coinbase bits serialise to raw bytes: only where the program is never re-parsed
                    let n = rng.range(0, 8) as usize;
                    let b = rng.bytes(n);
                    if !reparsed {
                        out.push(json!({"cb": hx(&b)}))
                    }
                }
            }
        }
        out
    }

    fn pubkey_bit(rng: &mut Rng) -> Value {
        match rng.below(8) {
            0 => json!({"sig": "pubkey", "key": rng.below(3), "compressed": false}),
            1 => {
                // well-formed SEC1 prefix, x almost surely not on the curve half of the time
                let mut b = vec![0x02];
                b.extend(rng.bytes(32));
                json!({"p": hx(&b)})
            }
            2 => json!({"p": ""}),
            3 => {
                let mut b = vec![0x04];
                b.extend(rng.bytes(64));
                json!({"p": hx(&b)})
            }
            _ => json!({"sig": "pubkey", "key": rng.below(3), "compressed": true}),
        }
    }
}

const SYS_OPERANDS: [&str; 18] = [
    "", "80", "00", "01", "81", "05", "ff", "02", "0080", "ff7f", "ffffff7f", "ffffffff", "0000008080", "0000008000", "0102030405", "5a5a5a5a5a5a5a5a5a5a5a5a5a5a5a5a5a5a5a5a",
    "025a5a5a5a5a5a5a5a5a5a5a5a5a5a5a5a5a5a5a5a5a5a5a5a5a5a5a5a5a5a5a5a5a", "00000000",
];
const SYS_OPERANDS_SMALL: [&str; 6] = ["", "01", "81", "02", "ffffff7f", "0000008080"];

impl InterpDriver {
    fn sys_opcodes() -> Vec<u8> {
        (0u16..=255).map(|x| x as u8).filter(|b| !(1..=78).contains(b)).filter(|b| num_from_u8(*b).is_some()).collect()
    }

    pub fn systematic_total() -> u64 {
        let n = Self::sys_opcodes().len() as u64;
        n * (1 + 18 + 18 * 18 + 6 * 6 * 6)
    }

    pub fn systematic_plan(index: u64) -> Option<Plan> {
        let ops = Self::sys_opcodes();
        let per_op = 1 + 18 + 18 * 18 + 6 * 6 * 6;
        if index >= ops.len() as u64 * per_op {
            return None;
        }
        let op = ops[(index / per_op) as usize];
        let mut r = index % per_op;
        let mut operands: Vec<&str> = vec![];
        if r == 0 {
        } else if r < 1 + 18 {
            operands.push(SYS_OPERANDS[(r - 1) as usize]);
        } else if r < 1 + 18 + 324 {
            r -= 19;
            operands.push(SYS_OPERANDS[(r / 18) as usize]);
            operands.push(SYS_OPERANDS[(r % 18) as usize]);
        } else {
            r -= 19 + 324;
            operands.push(SYS_OPERANDS_SMALL[(r / 36) as usize]);
            operands.push(SYS_OPERANDS_SMALL[((r / 6) % 6) as usize]);
            operands.push(SYS_OPERANDS_SMALL[(r % 6) as usize]);
        }
        let mut prog: Vec<Value> = operands.iter().map(|h| if h.is_empty() { json!(0) } else { json!({"p": h}) }).collect();
        // conditionals need a body to be constructible as a ScriptBit::If
        match op {
            99 | 100 | 101 | 102 => prog.push(json!({"if": op, "t": [81], "f": [82]})),
            _ => prog.push(json!(op)),
        }
        prog.push(json!(97));
        let with_tx = (171..=175).contains(&op);
        let tx = if with_tx { json!({"n_in": 2, "n_out": 1, "idx": 0, "sat": "1000", "has_lock": true, "has_sat": true, "split": 0, "split_at": 0}) } else { Value::Null };
        let events = vec![
            json!({"op": "load", "program": prog, "via_bytes": false, "tx": tx}),
            json!({"op": "next_n", "itp": 0, "n": 2}),
            json!({"op": "fork", "itp": 0}),
            json!({"op": "run", "itp": 0}),
            json!({"op": "next_n", "itp": 1, "n": 8}),
            json!({"op": "next", "itp": 1}),
        ];
        Some(Plan { config: json!({"systematic": true, "opcode": op, "operands": operands}), events })
    }
}

const KEYS: [&str; 3] = ["0000000000000000000000000000000000000000000000000000000000000001", "7f3b2a190817161514131211100f0e0d0c0b0a090807060504030201a1b2c3d4", "fffffffffffffffffffffffffffffffebaaedce6af48a03bbfd25e8cd0364140"];

struct Itp {
    itp: Interpreter,
    steps: usize,
    done: bool,
    errored: bool,
}

impl Scenario for InterpDriver {
    fn info(&self) -> ScenarioInfo {
        ScenarioInfo {
            property: "C16",
            name: "interp-driver",
            rule: "the first run indices enumerate every parseable opcode byte on every stack of depth 0-3 over an operand alphabet of 18 edge encodings (6 at depth 3), each stepped, forked and run; after that one case = one generated program (ScriptBit tree over all opcode bytes incl. reserved/disabled/template pseudo-opcodes, Coinbase bits, nested conditionals to depth 6, operands from an alphabet of edge encodings, optional spending-transaction context with signature/multisig snippets) plus one seeded driver schedule of next / next_n / run / accessor / fork calls on 1-3 live interpreters with stdout faults (ENOSPC, EPIPE, EAGAIN after N bytes, EBADF control) armed and healed between calls; non-trivial = a fork or stdout fault fired, or the schedule mixed next and run on one interpreter, or an error/None was followed by further calls; distinct = distinct fingerprint of the (interpreter, driver-call kind, stdout health, outcome class) sequence plus the program's opcode-class sequence",
            abstract_state: "(class of the bit about to execute, stack-depth bucket, inside a spliced branch?, driver-call kind, stdout health)",
            real: &["bsv::Interpreter (from_script, from_transaction, next, run, state, script_index, script_bits, clone)", "bsv::Script::from_script_bits / from_bytes / to_bytes", "bsv::Transaction::sign for signature operands", "process fd 1 (real /dev/full, real pipes)"],
            stub: &["reference trace = single-stepping a fresh Interpreter over the same program with a healthy stdout"],
            assumptions: &["programs whose next step would request more than ~4 MiB (LSHIFT of a non-zero value by more than 2^25 bits, NUM2BIN to more than 4 MiB, CAT/MUL of operands above 1 MiB) or whose live stacks exceed 48 MiB are dropped by the reference pass: C16 does not bound memory", "with those caps nothing legitimate comes near the 1 GiB allocator budget, so a worker abort caused by allocator exhaustion is runaway allocation and is reported", "outcomes are compared as a class (Finished / Err), never by error text; after the end or an error only the stacks are judged, and run() against single-stepping from that state"],
            required_probes: &["ref_finished", "ref_err", "run_after_next", "next_after_none", "next_after_err", "stdout_fault_during_run", "fork_applied"],
            quick_runs: 110_000,
            thorough_runs: 4000000,
            rlimit_as: 6 << 30,
            alloc_abort_is_violation: true,
        }
    }

    fn generate(&self, rng: &mut Rng, tier: Tier, index: u64) -> Plan {
        // systematic prefix: every parseable opcode byte on every stack of depth 0..=3 over an operand alphabet of edge
        // encodings (depth <= 2: 18 operands, depth 3: 6), stepped and run; the seeded programs follow
        if let Some(p) = Self::systematic_plan(index) {
            return p;
        }
        // rare recursion probe: a program of n nested taken conditionals built through from_script_bits
        if rng.chance(1, 3000) {
            let n = if tier == Tier::Thorough { *rng.pick(&[200u64, 5_000, 20_000, 60_000, 150_000]) } else { *rng.pick(&[50u64, 200, 3_000]) };
            return Plan { config: json!({"deep_nesting": n}), events: vec![json!({"op": "load_deep", "n": n})] };
        }
        // swarm: opcode subset
        let all: Vec<u8> = (0u16..=255).map(|x| x as u8).filter(|b| !(1..=78).contains(b) && !matches!(b, 99..=104)).filter(|b| num_from_u8(*b).is_some()).collect();
        let mut enabled: Vec<u8> = all.iter().cloned().filter(|_| rng.chance(1, 3)).collect();
        if enabled.len() < 4 {
            enabled = all.clone();
        }
        let with_tx = rng.chance(1, 3);
        let mut budget = rng.range(3, 40) as i32;
        let mut growth = 6;
        let via_bytes = rng.chance(1, 4);
        let valid_pct = *rng.pick(&[20u64, 50, 80, 95]);
        let mut prog = Self::gen_block(rng, &enabled, 0, &mut budget, &mut growth, with_tx, with_tx || via_bytes, valid_pct);
        if !with_tx && rng.chance(1, 200) {
            // many items first: stack depths around the historical limits (201 operations, 500, 1000 stack items), built from
            // opcode pushes, data pushes and alt-stack moves, then the random program on top of that state
            let k = (*rng.pick(&[200i64, 201, 202, 499, 500, 501, 999, 1000, 1000, 1001]) + *rng.pick(&[0i64, 0, 0, -1, 1])) as usize;
            let style = rng.below(3);
            let mut head: Vec<Value> = vec![];
            let mut items = 0usize;
            while items < k {
                match style {
                    0 => head.push(json!(81)),
                    1 => head.push(json!({"p": hx(&[(items % 200) as u8 + 1])})),
                    _ => {
                        head.push(json!(81));
                        if rng.chance(1, 3) {
                            head.push(json!(107));
                        }
                    }
                }
                items += 1;
            }
            // what comes first on the full stack matters: one of each kind of producer
            head.push(match rng.below(6) {
                0 => json!({"p": "aabb"}),
                1 => json!({"pd": 76, "d": "cc"}),
                2 => json!(118),
                3 => json!(116),
                4 => json!(82),
                _ => json!(108),
            });
            head.extend(prog);
            prog = head;
        }
        // spends: most transaction-context programs start with a real unlocking script / locking head
        let mut split_at: Option<usize> = None;
        if with_tx && rng.chance(3, 4) {
            let flag = *rng.pick(&crate::scen_txhist::FLAGS);
            let verify = rng.chance(1, 2);
            let mut head: Vec<Value> = vec![];
            if rng.chance(1, 2) {
                let key = rng.below(3);
                head.push(json!({"sig": "valid", "key": key, "flag": flag}));
                split_at = Some(1);
                head.push(json!({"sig": "pubkey", "key": key, "compressed": rng.chance(1, 2)}));
                head.push(json!(if verify { 173 } else { 172 }));
            } else {
                let n = rng.range(1, 3);
                let m = rng.range(1, n);
                head.push(json!(0));
                for j in 0..m {
                    head.push(json!({"sig": "valid", "key": j, "flag": flag}));
                }
                split_at = Some(1 + m as usize);
                head.push(json!(80 + m));
                for j in 0..n {
                    head.push(json!({"sig": "pubkey", "key": j, "compressed": true}));
                }
                head.push(json!(80 + n));
                head.push(json!(if verify { 175 } else { 174 }));
            }
            match rng.below(8) {
                0 | 1 => {
                    // a separator in front of the check: the signed subscript starts after it
                    let pos = split_at.unwrap();
                    head.insert(pos, json!(171));
                }
                2 => {
                    // a separator executed inside a spliced conditional branch, possibly nested
                    let pos = split_at.unwrap();
                    let depth = rng.range(1, 3);
                    let mut inner: Vec<Value> = vec![json!(171)];
                    for _ in 0..depth {
                        let mut t = vec![json!(97); rng.below(3) as usize];
                        t.push(json!(81));
                        t.push(json!({"if": 99, "t": inner, "f": Value::Null}));
                        inner = t;
                    }
                    head.insert(pos, json!({"if": 99, "t": inner, "f": Value::Null}));
                    head.insert(pos, json!(81));
                }
                3 => {
                    // round 12: a separator that executes in the unlocking script, in front of the signature pushes
                    head.insert(0, json!(171));
                    split_at = split_at.map(|s| s + 1);
                }
                4 => {
                    // ... or inside a taken branch of the unlocking script
                    head.insert(0, json!({"if": 99, "t": [json!(171)], "f": Value::Null}));
                    head.insert(0, json!(81));
                    split_at = split_at.map(|s| s + 2);
                }
                _ => {}
            }
            head.extend(prog);
            prog = head;
        }
        let tx = if with_tx {
            let n_in = rng.range(1, 3);
            json!({"n_in": n_in, "n_out": rng.range(0, 3), "idx": if rng.chance(1, 12) { n_in + 1 } else { rng.below(n_in) }, "sat": u64s(rng.below(1 << 40)), "has_lock": !rng.chance(1, 10), "has_sat": !rng.chance(1, 10), "split": rng.below(4), "split_at": split_at, "via_bits": rng.chance(1, 5)})
        } else {
            Value::Null
        };
        let mut events = vec![json!({"op": "load", "program": prog, "via_bytes": via_bytes, "tx": tx})];
        let n_sched = rng.range(1, 10);
        let stdout_on = rng.chance(1, 2);
        let restart_on = rng.chance(1, 3);
        // API-subset epochs (thorough): every second block of a million consecutive run indices never calls run() - neither in
        // the schedule nor when live interpreters are driven to their end - so that each worker process lives through a long
        // stretch of stepping only (state a library keeps per thread or per process between calls gets the chance to build up)
        let step_only_epoch = tier == Tier::Thorough && (index / 1_000_000) % 2 == 1;
        let mut n_itp = 1u64;
        for _ in 0..n_sched {
            let i = rng.below(n_itp);
            let ev = match rng.weighted(&[25, 20, 20, 8, 10, if stdout_on { 14 } else { 0 }, if stdout_on { 5 } else { 0 }, if restart_on { 8 } else { 0 }]) {
                0 => json!({"op": "next", "itp": i}),
                1 => json!({"op": "next_n", "itp": i, "n": rng.range(1, 30)}),
                2 if step_only_epoch => json!({"op": "next_n", "itp": i, "n": rng.range(1, 60)}),
                2 => json!({"op": "run", "itp": i}),
                3 => json!({"op": "peek", "itp": i}),
                4 => {
                    if n_itp < 3 {
                        n_itp += 1;
                        json!({"op": "fork", "itp": i})
                    } else {
                        json!({"op": "next", "itp": i})
                    }
                }
                5 => json!({"op": "stdout_fault", "kind": *rng.pick(&["enospc", "epipe", "eagain", "ebadf"]), "n": *rng.pick(&[0u64, 1, 16, 31, 32, 100, 1000])}),
                7 => json!({"op": "restart", "itp": i}),
                _ => json!({"op": "stdout_heal"}),
            };
            events.push(ev);
        }
        Plan { config: json!({"enabled_opcodes": enabled.len(), "well_formed_pct": valid_pct, "with_tx": with_tx, "via_bytes": via_bytes, "stdout_faults": stdout_on, "step_only_epoch": step_only_epoch}), events }
    }

    fn execute(&self, plan: &Plan, ctx: &mut RunCtx) {
        // a request that would lift live heap above 1 GiB is refused at once: deterministic `resource` outcome
        faults::mem_begin(1 << 30);
        self.execute_inner(plan, ctx);
        faults::stdout_heal();
        faults::mem_end();
    }

    fn shrink_event(&self, ev: &Event) -> Vec<Event> {
        self.shrink_event_impl(ev)
    }
}

impl InterpDriver {
    fn execute_inner(&self, plan: &Plan, ctx: &mut RunCtx) {
        let mut world: Option<World> = None;
        let mut reft: Option<RefTrace> = None;
        let mut itps: Vec<Itp> = vec![];
        let mut health: Option<StdoutFault> = None;
        let mut total_bits = 0usize;

        macro_rules! bail {
            () => {{
                faults::stdout_heal();
                return;
            }};
        }

        for (seq, ev) in plan.events.iter().enumerate() {
            if ctx.stopped() {
                break;
            }
            ctx.seq = seq;
            let op = jstr(ev, "op").to_string();
            match op.as_str() {
                "load" => {
                    if world.is_some() {
                        ctx.skip();
                        continue;
                    }
                    ctx.event(seq, "load", "");
                    // --- transaction context
                    let txv = ev.get("tx").cloned().unwrap_or(Value::Null);
                    let keys: Vec<PrivateKey> = KEYS.iter().filter_map(|k| PrivateKey::from_hex(k).ok()).collect();
                    let mut tx_ctx: Option<(Transaction, usize)> = None;
                    if !txv.is_null() {
                        let mut tx = Transaction::new(1, 0);
                        for i in 0..ju64(&txv, "n_in") {
                            let mut txid = vec![0x11u8; 32];
                            txid[0] = i as u8;
                            tx.add_input(&TxIn::new(&txid, i as u32, &Script::default(), Some(0xffff_fffe)));
                        }
                        for i in 0..ju64(&txv, "n_out") {
                            tx.add_output(&TxOut::new(1000 + i, &Script::from_script_bits(vec![ScriptBit::OpCode(OpCodes::OP_1)])));
                        }
                        tx_ctx = Some((tx, jusize(&txv, "idx")));
                    }
                    // --- program: resolve symbolic signature/pubkey operands with the real signer
                    let prog_json = ev.get("program").cloned().unwrap_or(json!([]));
                    let sat = ju64s(&txv, "sat");
                    let sign_tx = tx_ctx.clone();
                    let subscript = std::cell::RefCell::new(Script::default());
                    let resolve = |b: &Value| -> Vec<u8> {
                        let kind = jstr(b, "sig");
                        let key = &keys[jusize(b, "key") % keys.len()];
                        if kind == "pubkey" {
                            let pk = key.compress_public_key(jbool(b, "compressed")).to_public_key();
                            return pk.and_then(|p| p.to_bytes()).unwrap_or_default();
                        }
                        let flag = SigHash::try_from(ju64(b, "flag") as u8).unwrap_or(SigHash::InputsOutputs);
                        let mut sig = match &sign_tx {
                            Some((tx, idx)) => {
                                let mut t = tx.clone();
                                let i = (*idx).min(t.get_ninputs().saturating_sub(1));
                                guard(|| t.sign(key, flag, i, &subscript.borrow(), sat)).ok().and_then(|r| r.ok()).and_then(|s| s.to_bytes().ok()).unwrap_or_else(|| vec![0x30, 0x06, 0x02, 0x01, 0x01, 0x02, 0x01, 0x01, ju64(b, "flag") as u8])
                            }
                            None => vec![0x30, 0x06, 0x02, 0x01, 0x01, 0x02, 0x01, 0x01, ju64(b, "flag") as u8],
                        };
                        match kind {
                            "truncated" => {
                                sig.truncate(sig.len() / 2);
                                sig
                            }
                            "badflag" => {
                                if let Some(l) = sig.last_mut() {
                                    *l = 0x04;
                                }
                                sig
                            }
                            "empty" => vec![],
                            "garbage" => vec![0x30, 0x45, 0x02, 0x21, 0x00, 0xff, 0x41],
                            _ => sig,
                        }
                    };
                    let split_of = |all: &[ScriptBit]| -> usize {
                        if let Some(n) = txv.get("split_at").and_then(|x| x.as_u64()) {
                            return (n as usize).min(all.len());
                        }
                        all.iter().position(|b| !matches!(b, ScriptBit::Push(_) | ScriptBit::PushData(_, _))).unwrap_or(all.len()).min(jusize(&txv, "split") + all.len() / 2).min(all.len())
                    };
                    // pass 1 with placeholder signatures fixes the unlocking/locking split; pass 2 signs
                    // over the locking script so that valid spends exist among the generated programs
                    if tx_ctx.is_some() {
                        if let Some(b1) = bits_from_json(&prog_json, &resolve) {
                            let sp = split_of(&b1);
                            *subscript.borrow_mut() = Script::from_script_bits(b1[sp..].to_vec());
                        }
                    }
                    let bits = match bits_from_json(&prog_json, &resolve) {
                        Some(b) => b,
                        None => {
                            ctx.skip();
                            return;
                        }
                    };
                    total_bits = count_bits(&bits);
                    let mut script = Script::from_script_bits(bits.clone());
                    if jbool(ev, "via_bytes") {
                        ctx.crumb("Script::from_bytes(program)");
                        match guard(|| Script::from_bytes(&script.to_bytes())) {
                            Ok(Ok(s)) => {
                                ctx.probe("program_via_bytes");
                                total_bits = count_bits(&s.to_script_bits());
                                script = s;
                            }
                            Ok(Err(_)) => ctx.probe("program_bytes_unparseable"),
                            Err(_) => ctx.probe("program_bytes_parser_panic"), // C09's subject
                        }
                    }
                    if let Some((tx, idx)) = tx_ctx.as_mut() {
                        // unlocking script = leading pushes, locking script = the rest
                        let all = script.to_script_bits();
                        let split = split_of(&all);
                        let (unl, lock) = all.split_at(split);
                        let i = (*idx).min(tx.get_ninputs().saturating_sub(1));
                        if let Some(mut txin) = tx.get_input(i) {
                            txin.set_unlocking_script(&Script::from_script_bits(unl.to_vec()));
                            if jbool(&txv, "has_lock") {
                                txin.set_locking_script(&Script::from_script_bits(lock.to_vec()));
                            }
                            if jbool(&txv, "has_sat") {
                                txin.set_satoshis(sat);
                            }
                            tx.set_input(i, &txin);
                        }
                    }
                    let via_bits = jbool(&txv, "via_bits") && tx_ctx.is_some();
                    if via_bits {
                        ctx.probe("built_from_transaction_and_script_bits");
                    }
                    let w = World { script, tx: tx_ctx, via_bits };
                    // --- reference trace (healthy stdout)
                    faults::stdout_heal();
                    ctx.crumb("Interpreter::from_*");
                    let mut r = match guard(|| w.build()) {
                        Ok(Ok(i)) => i,
                        Ok(Err(_)) => {
                            ctx.probe("build_err");
                            return;
                        }
                        Err(p) => {
                            ctx.violate("panic", format!("panic@{}#Interpreter::from_transaction", site_file(&p.site)), format!("constructor panicked at {}: {}", p.site, p.msg));
                            return;
                        }
                    };
                    total_bits = total_bits.max(count_bits(&r.script_bits()));
                    let total_bits_top = r.script_bits().len();
                    // generous: an implementation may spend separate steps on OP_ELSE / OP_ENDIF
                    let bound = 4 * total_bits + 16;
                    let mut states = vec![snap(&r)];
                    let mut bits_at = vec![];
                    let outcome;
                    loop {
                        let sb = r.script_bits();
                        let cur = sb.get(r.script_index());
                        if resource_risk(cur, &states.last().unwrap().stack) {
                            ctx.probe("resource_guard");
                            return;
                        }
                        let name = opname(cur);
                        let cls = bit_class(cur);
                        if matches!(cur, Some(ScriptBit::OpCode(OpCodes::OP_CHECKSIG)) | Some(ScriptBit::OpCode(OpCodes::OP_CHECKSIGVERIFY))) {
                            ctx.probe("checksig_reached");
                        }
                        if matches!(cur, Some(ScriptBit::OpCode(OpCodes::OP_CHECKMULTISIG)) | Some(ScriptBit::OpCode(OpCodes::OP_CHECKMULTISIGVERIFY))) {
                            ctx.probe("multisig_reached");
                        }
                        if matches!(cur, Some(ScriptBit::If { .. })) {
                            ctx.probe("if_reached");
                        }
                        if matches!(cur, Some(ScriptBit::OpCode(OpCodes::OP_CODESEPARATOR))) && r.script_bits().len() > total_bits_top {
                            ctx.probe("codeseparator_in_spliced_branch");
                        }
                        ctx.crumb(&format!("next#{}", name));
                        let before_len = sb.len();
                        let res = match guard(|| r.next()) {
                            Ok(x) => x,
                            Err(p) => {
                                ctx.violate("panic", format!("panic@{}#{}", site_file(&p.site), name), format!("next() panicked executing {} with stack depth {} at {}: {}", name, states.last().unwrap().stack.len(), p.site, p.msg));
                                return;
                            }
                        };
                        match res {
                            None => {
                                outcome = Outcome::Finished;
                                ctx.probe("ref_finished");
                                break;
                            }
                            Some(Ok(st)) => {
                                let s = Snap { stack: st.stack.clone(), alt: st.alt_stack.clone() };
                                if s != snap(&r) {
                                    ctx.violate("mismatch", format!("returned-state-differs#{}", name), format!("state returned by next() after {} differs from Interpreter::state()", name));
                                    return;
                                }
                                if r.script_bits().len() > before_len {
                                    ctx.probe("if_branch_spliced");
                                }
                                states.push(s);
                                bits_at.push(cls);
                                ctx.probe(&format!("op_ok:{}", name));
                                if states.len() > bound + 1 {
                                    ctx.violate("loop", format!("loop:more than {} steps", "4*flattened-size+16"), format!("{} successful steps on a program of {} bits", states.len() - 1, total_bits));
                                    return;
                                }
                            }
                            Some(Err(e)) => {
                                ctx.probe("ref_err");
                                ctx.probe(&format!("op_err:{}", name));
                                // T4: failure atomicity
                                let after = snap(&r);
                                if after != *states.last().unwrap() {
                                    if ctx.violate(
                                        "atomicity",
                                        format!("stacks-changed-on-error#{}", name),
                                        format!("{} failed with `{}` but left stack depth {} -> {} (alt {} -> {}); the stacks are not those of the last successfully returned state", name, e, states.last().unwrap().stack.len(), after.stack.len(), states.last().unwrap().alt.len(), after.alt.len()),
                                    ) {
                                        return;
                                    }
                                }
                                outcome = Outcome::Err(e.to_string());
                                break;
                            }
                        }
                    }
                    ctx.observe_str(&format!("{:?}/{}", outcome, states.len()));
                    ctx.fp.u64(bits_at.iter().fold(0u64, |a, c| a.wrapping_mul(31).wrapping_add(*c)));
                    reft = Some(RefTrace { states, outcome, bits_at });
                    // first live interpreter
                    match guard(|| w.build()) {
                        Ok(Ok(i)) => itps.push(Itp { itp: i, steps: 0, done: false, errored: false }),
                        _ => return,
                    }
                    world = Some(w);
                }
                "load_deep" => {
                    // recursion probe: n nested taken conditionals, built and torn down iteratively by the harness
                    // (only the library's own clone / step / drop recurse)
                    if world.is_some() {
                        ctx.skip();
                        continue;
                    }
                    let n = jusize(ev, "n").min(400_000);
                    ctx.event(seq, "load_deep", "");
                    ctx.probe("deep_program");
                    let mut inner: Vec<ScriptBit> = vec![ScriptBit::OpCode(OpCodes::OP_1)];
                    for _ in 0..n {
                        inner = vec![ScriptBit::OpCode(OpCodes::OP_1), ScriptBit::If { code: OpCodes::OP_IF, pass: inner, fail: None }];
                    }
                    let script = Script::from_script_bits(inner);
                    ctx.crumb("deep:Interpreter::from_script(clone)");
                    let mut itp = Interpreter::from_script(&script);
                    let mut steps = 0usize;
                    loop {
                        ctx.crumb("deep:next");
                        match guard(|| itp.next()) {
                            Ok(None) => break,
                            Ok(Some(Ok(_))) => steps += 1,
                            Ok(Some(Err(_))) => {
                                // "a new state or an error": an implementation with a nesting limit answers Err here
                                ctx.probe("deep_program_ended_with_error");
                                break;
                            }
                            Err(p) => {
                                ctx.violate("panic", format!("panic@{}#deep", site_file(&p.site)), format!("{}: {}", p.site, p.msg));
                                break;
                            }
                        }
                        if steps > 3 * n + 8 {
                            ctx.violate("loop", "loop:deep".into(), "deep program did not terminate".into());
                            break;
                        }
                        // stepping a deeply nested program is cubic in the depth (every step clones the remaining
                        // tree, the state and the opcode history); the probe is about recursion depth, so a deep
                        // program is stepped only a little
                        if n > 200 && steps >= 6 {
                            break;
                        }
                    }
                    ctx.observe_str(&format!("deep {} steps {}", n, steps));
                    ctx.crumb("deep:drop");
                    drop(itp);
                    drop(script);
                    return;
                }
                "stdout_fault" => {
                    if world.is_none() {
                        ctx.skip();
                        continue;
                    }
                    let f = match StdoutFault::parse(jstr(ev, "kind"), jusize(ev, "n")) {
                        Some(f) => f,
                        None => {
                            ctx.skip();
                            continue;
                        }
                    };
                    ctx.event(seq, "stdout_fault", f.name());
                    faults::stdout_heal();
                    if faults::stdout_fault(f) {
                        health = Some(f);
                    } else {
                        ctx.probe("stdout_fault_unavailable");
                    }
                }
                "stdout_heal" => {
                    ctx.event(seq, "stdout_heal", "");
                    faults::stdout_heal();
                    if health.is_some() {
                        ctx.probe("stdout_healed");
                    }
                    health = None;
                }
                "fork" => {
                    let i = jusize(ev, "itp");
                    if i >= itps.len() || itps.len() >= 3 {
                        ctx.skip();
                        continue;
                    }
                    ctx.event(seq, "fork", "");
                    ctx.fault("fork");
                    ctx.probe("fork_applied");
                    match guard(|| itps[i].itp.clone()) {
                        Ok(c) => {
                            let n = Itp { itp: c, steps: itps[i].steps, done: itps[i].done, errored: itps[i].errored };
                            itps.push(n);
                        }
                        Err(p) => {
                            ctx.violate("panic", format!("panic@{}#clone", site_file(&p.site)), format!("Interpreter::clone panicked at {}: {}", p.site, p.msg));
                            bail!();
                        }
                    }
                }
                "restart" => {
                    // the driver crashes and comes back with what it had made durable: the interpreter's JSON form. Applied only
                    // when the round trip is faithful (what JSON loses is C18's subject): same bits, index, stacks, and the
                    // restored object serialises to the same text. From there on it must behave like the one it replaces.
                    let i = jusize(ev, "itp");
                    // only interpreters without a transaction context: there bits, index and stacks are all that the rest of the
                    // run can depend on, and all three are compared below; whether JSON keeps a transaction context is C18's subject
                    if i >= itps.len() || total_bits > 4000 || world.as_ref().map(|w| w.tx.is_some()).unwrap_or(true) {
                        ctx.skip();
                        continue;
                    }
                    ctx.event(seq, "restart", "json");
                    let js = match guard(|| serde_json::to_string(&itps[i].itp)) {
                        Ok(Ok(j)) => j,
                        Ok(Err(_)) => {
                            ctx.probe("restart_serialise_refused");
                            continue;
                        }
                        Err(p) => {
                            ctx.violate("panic", format!("panic@{}#serialise interpreter", site_file(&p.site)), format!("serde_json::to_string(&Interpreter) panicked at {}: {}", p.site, p.msg));
                            bail!();
                        }
                    };
                    match guard(|| serde_json::from_str::<Interpreter>(&js)) {
                        Ok(Ok(r)) => {
                            let o = &itps[i].itp;
                            let (so, sr) = (o.state(), r.state());
                            let faithful = r.script_bits() == o.script_bits()
                                && r.script_index() == o.script_index()
                                && so.stack == sr.stack
                                && so.alt_stack == sr.alt_stack
                                && serde_json::to_string(&r).map(|j| j == js).unwrap_or(false);
                            if faithful {
                                ctx.fault("restart-json");
                                ctx.probe("restart_applied");
                                ctx.nontrivial = true;
                                itps[i].itp = r;
                            } else {
                                ctx.probe("restart_not_faithful");
                            }
                        }
                        Ok(Err(_)) => ctx.probe("restart_not_faithful"),
                        Err(p) => {
                            ctx.violate("panic", format!("panic@{}#deserialise interpreter", site_file(&p.site)), format!("serde_json::from_str::<Interpreter> of its own output panicked at {}: {}", p.site, p.msg));
                            bail!();
                        }
                    }
                }
                "next" | "next_n" | "run" | "peek" => {
                    let i = jusize(ev, "itp");
                    if i >= itps.len() || reft.is_none() {
                        ctx.skip();
                        continue;
                    }
                    let rt = reft.as_ref().unwrap();
                    let hname = health.map(|h| h.name()).unwrap_or("healthy");
                    ctx.event(seq, &op, hname);
                    if let Some(h) = health {
                        ctx.fault(h.name());
                        if op == "run" {
                            ctx.probe("stdout_fault_during_run");
                        }
                    }
                    let n_calls = match op.as_str() {
                        "next" => 1,
                        "next_n" => jusize(ev, "n").min(4 * total_bits + 32),
                        _ => 0,
                    };
                    if op == "peek" {
                        let it = &itps[i];
                        let before = snap(&it.itp);
                        let idx = it.itp.script_index();
                        let r = guard(|| {
                            let _ = it.itp.state();
                            let _ = it.itp.script();
                            let _ = it.itp.script_bits();
                            let _ = it.itp.tx_script();
                            it.itp.script_index()
                        });
                        match r {
                            Ok(idx2) => {
                                if snap(&it.itp) != before || idx2 != idx {
                                    ctx.violate("isolation", "accessor-changed-state".into(), "read-only accessors changed the interpreter".into());
                                    bail!();
                                }
                            }
                            Err(p) => {
                                ctx.violate("panic", format!("panic@{}#accessor", site_file(&p.site)), format!("accessor panicked at {}: {}", p.site, p.msg));
                                bail!();
                            }
                        }
                        continue;
                    }
                    if op == "run" {
                        if itps[i].steps > 0 && !itps[i].done && !itps[i].errored {
                            ctx.probe("run_after_next");
                            ctx.nontrivial = true;
                        }
                        if itps[i].done || itps[i].errored {
                            ctx.nontrivial = true;
                        }
                        // "stepping equals run" from the state an ended interpreter is in: a twin is single-stepped to its end first,
                        // then the live one is run; whatever an implementation does after the end, the two must agree with each other
                        let mut twin_end: Option<(Outcome, Snap)> = None;
                        if itps[i].done || itps[i].errored {
                            ctx.crumb("step twin after end");
                            if let Ok(mut twin) = guard(|| itps[i].itp.clone()) {
                                let mut n = 0usize;
                                let oc = loop {
                                    n += 1;
                                    if n > 4 * total_bits + 32 {
                                        break None;
                                    }
                                    match guard(|| twin.next()) {
                                        Ok(None) => break Some(Outcome::Finished),
                                        Ok(Some(Ok(_))) => {}
                                        Ok(Some(Err(e))) => break Some(Outcome::Err(e.to_string())),
                                        Err(_) => break None,
                                    }
                                };
                                if let Some(oc) = oc {
                                    twin_end = Some((oc, snap(&twin)));
                                }
                            }
                        }
                        ctx.crumb("run");
                        let it = &mut itps[i];
                        let res = match guard(|| it.itp.run()) {
                            Ok(r) => r,
                            Err(p) => {
                                let under = if health.is_some() { format!(" under {}", hname) } else { String::new() };
                                if ctx.violate("panic", format!("panic@{}#run{}", site_file(&p.site), under), format!("run() panicked{} at {}: {}", under, p.site, p.msg)) {
                                    bail!();
                                }
                                // known: the interpreter may be mid-way; stop using it
                                it.done = true;
                                it.errored = true;
                                continue;
                            }
                        };
                        let got = match &res {
                            Ok(()) => Outcome::Finished,
                            Err(e) => Outcome::Err(e.to_string()),
                        };
                        ctx.observe_str(&format!("{:?}", got));
                        if it.done || it.errored {
                            // what run() answers on an interpreter that has already ended is not in the statement; its stacks are
                            ctx.probe(if got == rt.outcome { "run_after_end_repeats_outcome" } else { "run_after_end_other_outcome" });
                            if snap(&it.itp) != *rt.states.last().unwrap() {
                                ctx.violate("atomicity", format!("stacks-changed-after-end#run {}", hname), format!("run() on an interpreter that had already ended ({}) changed the stacks (stdout {})", if it.errored { "with an error" } else { "normally" }, hname));
                                bail!();
                            }
                            if let Some((toc, tsnap)) = &twin_end {
                                ctx.probe("run_vs_step_compared_after_end");
                                if *toc != got || *tsnap != snap(&it.itp) {
                                    ctx.violate("mismatch", format!("run-vs-step-differ-after-end {}", if it.errored { "error" } else { "none" }), format!("from the state the interpreter is in after it ended ({}), single-stepping a clone ends with {:?} but run() returns {:?} (stdout {})", if it.errored { "with an error" } else { "normally" }, toc, got, hname));
                                    bail!();
                                }
                            }
                            continue;
                        }
                        if got != rt.outcome {
                            ctx.violate("mismatch", format!("run-outcome-differs {}", hname), format!("run() returned {:?} but single-stepping the same program ends with {:?} (stdout {})", got, rt.outcome, hname));
                            bail!();
                        }
                        let fin = snap(&it.itp);
                        if fin != *rt.states.last().unwrap() {
                            ctx.violate("mismatch", format!("run-final-stacks-differ {}", hname), format!("after run() the stacks differ from the final state of single-stepping (stack depth {} vs {}, stdout {})", fin.stack.len(), rt.states.last().unwrap().stack.len(), hname));
                            bail!();
                        }
                        it.steps = rt.states.len() - 1;
                        match got {
                            Outcome::Finished => it.done = true,
                            Outcome::Err(_) => it.errored = true,
                        }
                        continue;
                    }
                    for _ in 0..n_calls {
                        let it = &mut itps[i];
                        if it.done {
                            ctx.probe("next_after_none");
                            ctx.nontrivial = true;
                        }
                        if it.errored {
                            ctx.probe("next_after_err");
                            ctx.nontrivial = true;
                        }
                        let sb = it.itp.script_bits();
                        let cur = sb.get(it.itp.script_index());
                        let name = opname(cur);
                        let in_branch = sb.len() > 0 && it.itp.script_index() > 0 && matches!(sb.get(it.itp.script_index().saturating_sub(1)), Some(ScriptBit::If { .. }));
                        ctx.state(&[bit_class(cur), (it.itp.state().stack.len().min(6)) as u64, in_branch as u64, 1, health.is_some() as u64]);
                        ctx.crumb(&format!("next#{}", name));
                        let res = match guard(|| it.itp.next()) {
                            Ok(r) => r,
                            Err(p) => {
                                let under = if health.is_some() { format!(" under {}", hname) } else { String::new() };
                                if ctx.violate("panic", format!("panic@{}#{}{}", site_file(&p.site), name, under), format!("next() panicked executing {}{} at {}: {}", name, under, p.site, p.msg)) {
                                    bail!();
                                }
                                it.done = true;
                                it.errored = true;
                                break;
                            }
                        };
                        let now = snap(&it.itp);
                        if it.done || it.errored {
                            // after the end (None) or after an error the statement fixes the stacks only: fused, repeated error and
                            // "already failed" variants are all fine, progress is not
                            ctx.fp.str(match &res {
                                None => "none",
                                Some(Ok(_)) => "ok",
                                Some(Err(_)) => "err",
                            });
                            ctx.probe(match (&res, it.errored) {
                                (None, true) => "after_err_next_gives_none",
                                (Some(Err(_)), true) => "after_err_next_gives_err",
                                (None, false) => "after_none_next_gives_none",
                                (Some(Err(_)), false) => "after_none_next_gives_err",
                                (Some(Ok(_)), _) => "after_end_next_gives_ok",
                            });
                            if now != *rt.states.last().unwrap() {
                                if ctx.violate("atomicity", format!("stacks-changed-after-end#{}", name), format!("a next() after the interpreter had ended ({}) changed the stacks", if it.errored { "with an error" } else { "with None" })) {
                                    bail!();
                                }
                            }
                            continue;
                        }
                        match res {
                            None => {
                                ctx.fp.str("none");
                                if rt.outcome != Outcome::Finished || it.steps != rt.states.len() - 1 {
                                    ctx.violate("mismatch", "next-none-early".into(), format!("next() returned None after {} steps but the reference {:?} after {}", it.steps, rt.outcome, rt.states.len() - 1));
                                    bail!();
                                }
                                if now != *rt.states.last().unwrap() {
                                    ctx.violate("mismatch", "state-changed-after-none".into(), "stacks changed by a next() that returned None".into());
                                    bail!();
                                }
                                it.done = true;
                            }
                            Some(Ok(_)) => {
                                ctx.fp.str("ok");
                                it.steps += 1;
                                if it.steps >= rt.states.len() {
                                    ctx.violate("mismatch", "step-beyond-reference".into(), format!("next() made progress (step {}) where the reference had ended with {:?} after {} steps", it.steps, rt.outcome, rt.states.len() - 1));
                                    bail!();
                                }
                                if now != rt.states[it.steps] {
                                    ctx.violate("mismatch", format!("step-state-differs#{} {}", name, hname), format!("after step {} ({}) the stacks differ from the reference trace (stdout {})", it.steps, name, hname));
                                    bail!();
                                }
                            }
                            Some(Err(e)) => {
                                ctx.fp.str("err");
                                let want_err = matches!(&rt.outcome, Outcome::Err(_));
                                if !want_err || it.steps != rt.states.len() - 1 {
                                    ctx.violate("mismatch", format!("step-error-differs#{} {}", name, hname), format!("next() returned Err(`{}`) at step {} but the reference trace has {:?} after {} steps", e, it.steps, rt.outcome, rt.states.len() - 1));
                                    bail!();
                                }
                                if now != rt.states[it.steps] {
                                    if ctx.violate("atomicity", format!("stacks-changed-on-error#{}", name), format!("{} failed with `{}` and left different stacks than the last good state", name, e)) {
                                        bail!();
                                    }
                                }
                                it.errored = true;
                            }
                        }
                    }
                }
                _ => ctx.skip(),
            }
        }
        // ---- every live interpreter is driven to its end: schedule-independent outcome (T3)
        faults::stdout_heal();
        if ctx.stopped() {
            return;
        }
        if let Some(rt) = reft.as_ref() {
            for (k, it) in itps.iter_mut().enumerate() {
                if it.done || it.errored {
                    continue;
                }
                ctx.crumb("drain");
                let mut guard_steps = 0usize;
                let use_run = k % 2 == 1 && !jbool(&plan.config, "step_only_epoch");
                if jbool(&plan.config, "step_only_epoch") {
                    ctx.probe("step_only_epoch_run");
                }
                let got = if use_run {
                    match guard(|| it.itp.run()) {
                        Ok(Ok(())) => Outcome::Finished,
                        Ok(Err(e)) => Outcome::Err(e.to_string()),
                        Err(p) => {
                            ctx.violate("panic", format!("panic@{}#run", site_file(&p.site)), format!("run() panicked at {}: {}", p.site, p.msg));
                            return;
                        }
                    }
                } else {
                    loop {
                        guard_steps += 1;
                        if guard_steps > 4 * total_bits + 32 {
                            ctx.violate("loop", "loop:drain".into(), "next() did not terminate within 4*flattened-size+32 calls".into());
                            return;
                        }
                        match guard(|| it.itp.next()) {
                            Ok(None) => break Outcome::Finished,
                            Ok(Some(Ok(_))) => {}
                            Ok(Some(Err(e))) => break Outcome::Err(e.to_string()),
                            Err(p) => {
                                ctx.violate("panic", format!("panic@{}#next(drain)", site_file(&p.site)), format!("next() panicked at {}: {}", p.site, p.msg));
                                return;
                            }
                        }
                    }
                };
                if got != rt.outcome || snap(&it.itp) != *rt.states.last().unwrap() {
                    ctx.violate("mismatch", format!("final-outcome-differs via {}", if use_run { "run" } else { "next-loop" }), format!("interpreter {} ended with {:?} but the reference trace ends with {:?}", k, got, rt.outcome));
                    return;
                }
            }
            let _ = &rt.bits_at;
        }
    }

    fn shrink_event_impl(&self, ev: &Event) -> Vec<Event> {
        let mut out = vec![];
        if jstr(ev, "op") == "load" {
            if let Some(p) = ev.get("program").and_then(|p| p.as_array()) {
                // drop one top-level bit at a time (from the end first), then unwrap conditionals
                for i in (0..p.len()).rev().take(40) {
                    let mut q = p.clone();
                    q.remove(i);
                    let mut e = ev.clone();
                    e["program"] = Value::Array(q);
                    out.push(e);
                }
                for i in 0..p.len().min(20) {
                    if let Some(t) = p[i].get("t").and_then(|t| t.as_array()) {
                        let mut q = p.clone();
                        q.splice(i..i + 1, t.clone());
                        let mut e = ev.clone();
                        e["program"] = Value::Array(q);
                        out.push(e);
                    }
                    if p[i].get("p").map(|h| h.as_str().unwrap_or("").len() > 2).unwrap_or(false) {
                        let mut q = p.clone();
                        q[i] = json!({"p": "01"});
                        let mut e = ev.clone();
                        e["program"] = Value::Array(q);
                        out.push(e);
                    }
                }
                if jbool(ev, "via_bytes") {
                    let mut e = ev.clone();
                    e["via_bytes"] = json!(false);
                    out.push(e);
                }
                if !ev.get("tx").map(|t| t.is_null()).unwrap_or(true) {
                    let mut e = ev.clone();
                    e["tx"] = Value::Null;
                    out.push(e);
                }
            }
        }
        if jstr(ev, "op") == "next_n" {
            let mut e = ev.clone();
            e["op"] = json!("next");
            out.push(e);
            let mut e = ev.clone();
            e["op"] = json!("run");
            out.push(e);
        }
        if jstr(ev, "op") == "stdout_fault" && jstr(ev, "kind") != "enospc" {
            let mut e = ev.clone();
            e["kind"] = json!("enospc");
            out.push(e);
        }
        out
    }
}
