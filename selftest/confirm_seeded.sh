#!/bin/bash
# Confirms one sub-agent change in a scratch worktree: patch applies, existing suite passes with it,
# demonstration fails with it and passes without it.  usage: confirm_seeded.sh <worktree> <dir with patch.diff demo.rs>
set -u
WT=$1; D=$2
cd $WT || exit 2
git checkout -q -- . ; rm -f tests/demo.rs
git apply --check $D/patch.diff || { echo "VERDICT $D patch-does-not-apply"; exit 1; }
cp $D/demo.rs tests/demo.rs
cargo test --offline --test demo > $D/confirm_demo_clean.log 2>&1; clean_rc=$?
git apply $D/patch.diff
cargo test --offline --test demo > $D/confirm_demo_patched.log 2>&1; patched_rc=$?
rm -f tests/demo.rs
cargo test --workspace --no-fail-fast --offline > $D/confirm_suite.log 2>&1; suite_rc=$?
nfail=$(grep -E "^test result: FAILED|^test .* FAILED" $D/confirm_suite.log | wc -l)
npass=$(grep -E "^test result: ok" $D/confirm_suite.log | sed -E 's/.*ok\. ([0-9]+) passed.*/\1/' | paste -sd+ | bc)
git checkout -q -- .
echo "VERDICT $D demo_clean_rc=$clean_rc demo_patched_rc=$patched_rc suite_rc=$suite_rc suite_passed=$npass suite_failed_lines=$nfail"
