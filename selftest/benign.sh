#!/bin/bash
# No-false-alarm self-test on behaviour-preserving changes: apply each /verif/selftest/benign/<name>/patch.diff to /repo's
# working tree, run EVERY check's quick tier, demand exit 0 from all of them, restore the tree.
# usage: selftest/benign.sh [name ...]
set -u
cd "$(dirname "$0")/.."
# never on the live /repo: the job's private snapshot under `vp run --with-repo`, a private clone otherwise
. selftest/_private_repo.sh
REPO="$VP_RUN_REPO"
if [ -n "${VP_RUN_REPO:-}" ]; then sed -i "s#path = \"/repo\"#path = \"$VP_RUN_REPO\"#" sim/Cargo.toml; fi
[ $# -gt 0 ] && LIST="$*" || LIST=$(ls selftest/benign 2>/dev/null)
if [ -n "$(git -C "$REPO" status --porcelain)" ]; then echo "repo working tree not clean" >&2; exit 2; fi
fail=0
for name in $LIST; do
  d=selftest/benign/$name
  [ -f $d/patch.diff ] || continue
  git -C "$REPO" apply $PWD/$d/patch.diff || { echo "PATCH-DOES-NOT-APPLY $name"; fail=1; continue; }
  bad=""
  for id in ${BENIGN_IDS:-C04 C05 C09 C11 C13 C15 C16}; do
    # BENIGN_TIER=thorough BENIGN_RUNS=<n> runs the thorough generators and the thorough tier's required-probe gate on a reduced budget
    if [ -n "${BENIGN_TIER:-}" ]; then
      out=$(VERIF_NO_EVIDENCE=1 VERIF_ENFORCE_PROBES=1 VERIF_RUNS=${BENIGN_RUNS:-300000} ./check $id $BENIGN_TIER 2>&1); rc=$?
    else
      out=$(VERIF_NO_EVIDENCE=1 ./check $id quick 2>&1); rc=$?
    fi
    if [ $rc -ne 0 ]; then
      sig=$(echo "$out" | sed -n 's/^violation: run=[0-9]* signature=\(.*\) class=.*/\1/p' | head -1)
      he=$(echo "$out" | grep -m1 "HARNESS-ERROR" )
      bad="$bad $id(rc=$rc ${sig}${he})"
    fi
  done
  if [ -z "$bad" ]; then echo "QUIET   $name"; else echo "ALARM   $name:$bad"; fail=1; fi
  git -C "$REPO" checkout -- .
done
exit $fail
