#!/bin/bash
# No-false-alarm sweep: every check's quick tier under N other VERIF_SEED values on the unchanged tree; all must exit 0.
# usage: selftest/seed_sweep.sh [first] [last]
cd "$(dirname "$0")/.."
# under `vp run --with-repo` build against the repository snapshot, not the live /repo
if [ -n "${VP_RUN_REPO:-}" ]; then sed -i "s#path = \"/repo\"#path = \"$VP_RUN_REPO\"#" sim/Cargo.toml; fi
first=${1:-1}; last=${2:-100}
bad=0
for id in ${SWEEP_IDS:-C04 C05 C09 C11 C13 C15 C16}; do
  ok=0
  for seed in $(seq $first $last); do
    out=$(VERIF_SEED=$seed VERIF_NO_EVIDENCE=1 ./check $id quick 2>&1); rc=$?
    if [ $rc -eq 0 ]; then ok=$((ok+1)); else bad=$((bad+1)); echo "SEED-SWEEP-FAIL $id seed=$seed rc=$rc"; echo "$out" | grep -E "^violation|VIOLATION|HARNESS|detail" | head -5; fi
  done
  echo "seed-sweep $id: $ok/$((last-first+1)) seeds exit 0  ($(date +%T))"
done
echo "seed-sweep total failures: $bad"
exit $((bad>0))
