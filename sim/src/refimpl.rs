//! Reference peers: small textbook implementations written against the primitive crates
//! (k256 group arithmetic, sha2, aes block cipher) with no bsv code. They play the "other party"
//! in the two-party scenarios and supply expected values where a wire format is fixed externally.

use crate::scen_digest::{ref_hash, ref_hmac};
use aes::cipher::generic_array::GenericArray;
use aes::{Aes128, BlockDecrypt, BlockEncrypt, NewBlockCipher};
use elliptic_curve::ops::Reduce;
use elliptic_curve::sec1::{FromEncodedPoint, ToEncodedPoint};
use elliptic_curve::group::Group;
use elliptic_curve::PrimeField;
use k256::{AffinePoint, EncodedPoint, ProjectivePoint, Scalar, U256};

pub const N_HEX: &str = "fffffffffffffffffffffffffffffffebaaedce6af48a03bbfd25e8cd0364141";
pub const HALF_N_HEX: &str = "7fffffffffffffffffffffffffffffff5d576e7357a4501ddfe92f46681b20a0";

pub fn scalar_reduced(be32: &[u8]) -> Scalar {
    let mut b = [0u8; 32];
    b.copy_from_slice(be32);
    <Scalar as Reduce<U256>>::from_be_bytes_reduced(b.into())
}

/// canonical scalar (None when >= n)
pub fn scalar_exact(be32: &[u8]) -> Option<Scalar> {
    if be32.len() != 32 {
        return None;
    }
    let mut b = [0u8; 32];
    b.copy_from_slice(be32);
    Option::from(Scalar::from_repr(b.into()))
}

pub fn scalar_bytes(s: &Scalar) -> Vec<u8> {
    s.to_repr().to_vec()
}

pub fn is_valid_secret(be32: &[u8]) -> bool {
    match scalar_exact(be32) {
        Some(s) => !bool::from(s.is_zero()),
        None => false,
    }
}

pub fn point_from_sec1(bytes: &[u8]) -> Option<ProjectivePoint> {
    let ep = EncodedPoint::from_bytes(bytes).ok()?;
    let ap: Option<AffinePoint> = Option::from(AffinePoint::from_encoded_point(&ep));
    ap.map(ProjectivePoint::from)
}

pub fn point_sec1(p: &ProjectivePoint, compressed: bool) -> Vec<u8> {
    p.to_affine().to_encoded_point(compressed).as_bytes().to_vec()
}

pub fn pubkey_of(secret_be32: &[u8], compressed: bool) -> Option<Vec<u8>> {
    let d = scalar_exact(secret_be32)?;
    Some(point_sec1(&(ProjectivePoint::generator() * d), compressed))
}

fn x_of(p: &ProjectivePoint) -> Option<Vec<u8>> {
    if bool::from(p.is_identity()) {
        return None;
    }
    let ep = p.to_affine().to_encoded_point(false);
    ep.x().map(|x| x.to_vec())
}

/// Textbook ECDSA verification of (r, s) over message scalar z = be(digest) mod n.
pub fn ecdsa_verify(pubkey_sec1: &[u8], digest32: &[u8], r: &[u8], s: &[u8]) -> bool {
    let q = match point_from_sec1(pubkey_sec1) {
        Some(q) => q,
        None => return false,
    };
    let (r_s, s_s) = match (scalar_exact(r), scalar_exact(s)) {
        (Some(a), Some(b)) => (a, b),
        _ => return false,
    };
    if bool::from(r_s.is_zero()) || bool::from(s_s.is_zero()) {
        return false;
    }
    let z = scalar_reduced(digest32);
    let s_inv: Scalar = match Option::<Scalar>::from(s_s.invert()) {
        Some(v) => v,
        None => return false,
    };
    let u1 = z * s_inv;
    let u2 = r_s * s_inv;
    let p = ProjectivePoint::generator() * u1 + q * u2;
    match x_of(&p) {
        Some(x) => scalar_reduced(&x) == r_s,
        None => false,
    }
}

/// Textbook ECDSA signing with nonce k, followed by low-S normalisation. Returns (r, s).
pub fn ecdsa_sign(secret_be32: &[u8], digest32: &[u8], k: &Scalar) -> Option<(Vec<u8>, Vec<u8>)> {
    let d = scalar_exact(secret_be32)?;
    let z = scalar_reduced(digest32);
    let rp = ProjectivePoint::generator() * *k;
    let r = scalar_reduced(&x_of(&rp)?);
    if bool::from(r.is_zero()) {
        return None;
    }
    let k_inv: Scalar = Option::<Scalar>::from(k.invert())?;
    let mut s = k_inv * (z + r * d);
    if bool::from(s.is_zero()) {
        return None;
    }
    if is_high(&scalar_bytes(&s)) {
        s = -s;
    }
    Some((scalar_bytes(&r), scalar_bytes(&s)))
}

pub fn is_high(s_be32: &[u8]) -> bool {
    let half = hex::decode(HALF_N_HEX).unwrap();
    s_be32 > half.as_slice()
}

/// RFC 6979 section 3.2 (with the 3.6 "additional data" variant), HMAC over `hash`
/// ("sha256" or "sha256d"); x = private key, h1 = bits2octets(hashed message).
pub fn rfc6979_k(x_be32: &[u8], h1_be32: &[u8], extra: &[u8], hash: &str) -> Scalar {
    let mut v = vec![0x01u8; 32];
    let mut k = vec![0x00u8; 32];
    for i in 0u8..2 {
        let mut m = v.clone();
        m.push(i);
        m.extend_from_slice(x_be32);
        m.extend_from_slice(h1_be32);
        m.extend_from_slice(extra);
        k = ref_hmac(hash, &k, &m);
        v = ref_hmac(hash, &k, &v);
    }
    loop {
        v = ref_hmac(hash, &k, &v);
        if let Some(c) = scalar_exact(&v) {
            if !bool::from(c.is_zero()) {
                return c;
            }
        }
        let mut m = v.clone();
        m.push(0x00);
        k = ref_hmac(hash, &k, &m);
        v = ref_hmac(hash, &k, &v);
    }
}

/// x coordinate of d * Q
pub fn ecdh_x(secret_be32: &[u8], pubkey_sec1: &[u8]) -> Option<Vec<u8>> {
    let d = scalar_exact(secret_be32)?;
    let q = point_from_sec1(pubkey_sec1)?;
    x_of(&(q * d))
}

// ---------------------------------------------------------------------------------------------
// AES-128-CBC with PKCS#7, by hand over the block cipher

pub fn aes128_cbc_encrypt(key16: &[u8], iv16: &[u8], msg: &[u8]) -> Vec<u8> {
    let cipher = Aes128::new(GenericArray::from_slice(key16));
    let pad = 16 - msg.len() % 16;
    let mut data = msg.to_vec();
    data.extend(std::iter::repeat(pad as u8).take(pad));
    let mut prev = iv16.to_vec();
    let mut out = vec![];
    for chunk in data.chunks(16) {
        let mut b: Vec<u8> = chunk.iter().zip(prev.iter()).map(|(a, b)| a ^ b).collect();
        let ga = GenericArray::from_mut_slice(&mut b);
        cipher.encrypt_block(ga);
        prev = b.clone();
        out.extend(b);
    }
    out
}

pub fn aes128_cbc_decrypt(key16: &[u8], iv16: &[u8], ct: &[u8]) -> Option<Vec<u8>> {
    if ct.is_empty() || ct.len() % 16 != 0 {
        return None;
    }
    let cipher = Aes128::new(GenericArray::from_slice(key16));
    let mut prev = iv16.to_vec();
    let mut out = vec![];
    for chunk in ct.chunks(16) {
        let mut b = chunk.to_vec();
        let ga = GenericArray::from_mut_slice(&mut b);
        cipher.decrypt_block(ga);
        out.extend(b.iter().zip(prev.iter()).map(|(a, b)| a ^ b));
        prev = chunk.to_vec();
    }
    let pad = *out.last()? as usize;
    if pad == 0 || pad > 16 || pad > out.len() {
        return None;
    }
    if !out[out.len() - pad..].iter().all(|x| *x as usize == pad) {
        return None;
    }
    out.truncate(out.len() - pad);
    Some(out)
}

// ---------------------------------------------------------------------------------------------
// BIE1 (Electrum ECIES)

pub struct Bie1Keys {
    pub iv: Vec<u8>,
    pub ke: Vec<u8>,
    pub km: Vec<u8>,
}

pub fn bie1_keys(secret_be32: &[u8], pubkey_sec1: &[u8]) -> Option<Bie1Keys> {
    let d = scalar_exact(secret_be32)?;
    let q = point_from_sec1(pubkey_sec1)?;
    let shared = q * d;
    if bool::from(shared.is_identity()) {
        return None;
    }
    let h = ref_hash("sha512", &point_sec1(&shared, true));
    Some(Bie1Keys { iv: h[0..16].to_vec(), ke: h[16..32].to_vec(), km: h[32..64].to_vec() })
}

/// magic || [sender compressed pubkey] || AES-128-CBC(msg) || HMAC-SHA256(km, everything before)
pub fn bie1_encrypt(sender_secret: &[u8], recipient_pub: &[u8], msg: &[u8], include_key: bool) -> Option<Vec<u8>> {
    let keys = bie1_keys(sender_secret, recipient_pub)?;
    let mut buf = b"BIE1".to_vec();
    if include_key {
        buf.extend(pubkey_of(sender_secret, true)?);
    }
    buf.extend(aes128_cbc_encrypt(&keys.ke, &keys.iv, msg));
    let mac = ref_hmac("sha256", &keys.km, &buf);
    buf.extend(mac);
    Some(buf)
}

/// Err(reason) on any failure; never returns plaintext unless the MAC verified.
pub fn bie1_decrypt(recipient_secret: &[u8], sender_pub: Option<&[u8]>, wire: &[u8], has_key: bool) -> Result<Vec<u8>, &'static str> {
    let min = if has_key { 4 + 33 + 32 } else { 4 + 32 };
    if wire.len() < min {
        return Err("short");
    }
    let body_end = wire.len() - 32;
    let embedded = if has_key { Some(&wire[4..37]) } else { None };
    let sender = match sender_pub {
        Some(s) => s,
        None => embedded.ok_or("no sender key")?,
    };
    let keys = bie1_keys(recipient_secret, sender).ok_or("bad key")?;
    let mac = ref_hmac("sha256", &keys.km, &wire[..body_end]);
    if mac != wire[body_end..] {
        return Err("mac");
    }
    let ct = &wire[if has_key { 37 } else { 4 }..body_end];
    aes128_cbc_decrypt(&keys.ke, &keys.iv, ct).ok_or("padding")
}

/// Strict DER `SEQUENCE { INTEGER r, INTEGER s }` to 32-byte big-endian (r, s); None for anything else.
pub fn der_rs(der: &[u8]) -> Option<(Vec<u8>, Vec<u8>)> {
    fn int(b: &[u8]) -> Option<(Vec<u8>, &[u8])> {
        if b.len() < 2 || b[0] != 0x02 {
            return None;
        }
        let n = b[1] as usize;
        if n == 0 || n > 33 || b.len() < 2 + n {
            return None;
        }
        let mut v = &b[2..2 + n];
        if v[0] & 0x80 != 0 {
            return None;
        }
        while v.len() > 1 && v[0] == 0 {
            v = &v[1..];
        }
        if v.len() > 32 {
            return None;
        }
        let mut out = vec![0u8; 32 - v.len()];
        out.extend_from_slice(v);
        Some((out, &b[2 + n..]))
    }
    if der.len() < 8 || der[0] != 0x30 || der[1] as usize != der.len() - 2 {
        return None;
    }
    let (r, rest) = int(&der[2..])?;
    let (s, rest) = int(rest)?;
    if !rest.is_empty() {
        return None;
    }
    Some((r, s))
}
