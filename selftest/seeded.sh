#!/bin/bash
# Sensitivity self-test, direction "seeded defect": for every /verif/seeded/<name>/patch.diff apply it to /repo's
# working tree, run the checks of the property it breaks (quick; --thorough also tries thorough when quick misses),
# demand exit 1 with a replay that re-fails, then restore the tree.
# usage: selftest/seeded.sh [--thorough] [--all-checks] [name ...]
set -u
cd "$(dirname "$0")/.."
# never on the live /repo: the job's private snapshot under `vp run --with-repo`, a private clone otherwise
. selftest/_private_repo.sh
REPO="$VP_RUN_REPO"
if [ -n "${VP_RUN_REPO:-}" ]; then sed -i "s#path = \"/repo\"#path = \"$VP_RUN_REPO\"#" sim/Cargo.toml; fi
THOR=0; ALLC=0
while [ "${1:-}" = "--thorough" ] || [ "${1:-}" = "--all-checks" ]; do
  [ "$1" = "--thorough" ] && THOR=1; [ "$1" = "--all-checks" ] && ALLC=1; shift
done
SD="${SEEDED_DIR:-seeded}"; [ $# -gt 0 ] && LIST="$*" || LIST=$(ls $SD 2>/dev/null)
if [ -n "$(git -C "$REPO" status --porcelain)" ]; then echo "repo working tree not clean" >&2; exit 2; fi
fail=0
for name in $LIST; do
  d=$SD/$name
  [ -f $d/patch.diff ] || continue
  prop=$(python3 -c "import json;print(json.load(open('$d/meta.json'))['property'])")
  # a change that only the thorough tier can reach (meta.json "tier": "thorough") is run in that tier alone
  only=$(python3 -c "import json;print(json.load(open('$d/meta.json')).get('tier',''))")
  git -C "$REPO" apply $PWD/$d/patch.diff || { echo "PATCH-DOES-NOT-APPLY $name"; fail=1; continue; }
  ids="$prop"; [ $ALLC -eq 1 ] && ids="C04 C05 C09 C11 C13 C15 C16"
  caught=""; broken=""
  for id in $ids; do
    for tier in quick thorough; do
      [ "$only" = thorough ] && [ $tier = quick ] && continue
      [ $tier = thorough ] && [ $THOR -eq 0 ] && [ "$only" != thorough ] && continue
      [ $tier = thorough ] && [ -n "$caught" ] && continue
      out=$(VERIF_NO_EVIDENCE=1 ./check $id $tier 2>&1); rc=$?
      if [ $rc -eq 1 ]; then
        rp=$(echo "$out" | sed -n 's/^VIOLATION property=[^ ]* replay=//p' | head -1)
        sig=$(echo "$out" | sed -n 's/^violation: run=[0-9]* signature=\(.*\) class=.*/\1/p' | head -1)
        ./check $id --replay "$rp" >/dev/null 2>&1; rrc=$?
        if [ $rrc -eq 1 ]; then caught="$caught $id/$tier[$sig]"; else broken="$broken $id/$tier[$sig](REPLAY-PASSES!)"; fi
      elif [ $rc -ne 0 ]; then
        broken="$broken $id/$tier(HARNESS-ERROR rc=$rc)"
      fi
    done
  done
  # a harness error or a replay that does not re-fail is a broken check, not a detection
  if [ -n "$broken" ]; then echo "BROKEN  $name ($prop):$broken$caught"; fail=1
  elif [ -n "$caught" ]; then echo "CAUGHT  $name ($prop):$caught"; else echo "MISSED  $name ($prop)"; fail=1; fi
  git -C "$REPO" checkout -- . 
done
exit $fail
