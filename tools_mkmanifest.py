#!/usr/bin/env python3
"""Regenerates /verif/MANIFEST.json from the tables below (kept in one place so it stays valid)."""
import json, subprocess

CLAIMED = {
 "C04": dict(section="4/C04", scenario="tx-history",
   text="Seeded exploration of API-call histories (all 14 mutators x all 14 sighash flag values x clone forks x wire/JSON/CBOR restarts) on 1-4 live Transaction objects; after every event every live object is compared with a freshly parsed copy (preimage/signature equality, memo-slot invariant through the verif hook, model serialisation, fork isolation). Sampling, not proof: evidence of absence over the histories explored; the defect pattern has length 3 and quick covers 20k histories of length 5-40.",
   note="Trusted: Transaction::from_bytes(to_bytes()) yields a history-free object (wire parse never fills the cache - checked by the restart oracle); the verif hook verif_hash_cache is a faithful read-only view; reference serialiser in scen_txhist.rs.",
   technique="deterministic simulation: seeded API-history scheduler with fork/restart events, differential oracle against a history-free copy"),
 "C16": dict(section="4/C16", scenario="interp-driver",
   text="Seeded exploration of generated programs (all opcode bytes incl. reserved/disabled/template pseudo-opcodes, Coinbase bits, nested conditionals, edge-encoded operands, spending-transaction context with real signatures, separators inside spliced branches) under seeded driver schedules (next / next_n / run / accessors / clone-forks on up to 3 interpreters) while the worker's real fd 1 is made to fail (ENOSPC via /dev/full, EPIPE, EAGAIN after N bytes, EBADF control) and healed. Oracles: no panic (site#opcode), bounded step count, every schedule observes the reference single-step trace state for state and ends in its outcome, stacks unchanged after an error and after None. Sampling; quick = 20k programs x schedules.",
   note="Reference trace is the library itself single-stepped with a healthy stdout (self-consistency, not opcode semantics - that is C14). Programs whose next step would allocate > ~1 MiB per operand are dropped; allocator-exhaustion aborts are a `resource` outcome because C16 does not bound memory. overflow-checks are on (as in the repo's own test profile).",
   technique="deterministic simulation: seeded driver-schedule scheduler over the interpreter step machine with stdout fault injection (real fd 1), differential oracle against a single-step reference trace"),
 "C09": dict(section="4/C09", scenario="artefact-medium",
   text="Seeded exploration over 55 public decoding entry points: a producer makes a valid artefact with the real encoder, a medium applies 0-3 faults (truncate, bit flip, byte set, length-field inflation with 28 compact-size/PUSHDATA/CBOR-head patterns at located or seeded offsets, junk, splice, duplication, emptying, random replacement, conditional nesting to 2*10^5), optionally misdelivers it to another decoder, and the real decoder runs in a worker process whose allocator refuses any request lifting live heap above 1024*len+1MiB. Panics are caught with their site; allocator exhaustion, native stack overflow and hangs kill the worker and are attributed to run and decoder by the parent through a shared-memory breadcrumb. Sampling; quick = 60k artefacts.",
   note="alpha=1024/beta=1MiB calibrated at 4x the largest fault-free peak/len ratio (histogram in evidence on every run); CBOR decoders get beta=320MiB because serde pre-allocates min(declared, 1MiB) per sequence and ciborium recurses <=256 levels (a constant, not a declared length). Inputs to base58 decoders are capped at 8KiB (quadratic time; the property does not bound time). Scenario code runs on an explicit 8MiB stack. Known finding: recursive conditional parser overflows the stack at ~10^5 nesting (8 decoder kinds).",
   technique="deterministic simulation: seeded producer/medium/consumer pipeline with storage-fault injection, budgeted allocator and worker-process death attribution"),
 "C05": dict(section="4/C05", scenario="ecdsa-net",
   text="Seeded exploration of signing-world histories: every signing entry point (deterministic nonce in both byte-order modes, randomised nonce with its 32-byte OS-entropy draw scripted through the hook as uniform/zeros/ones/>=n/n-1/repeat, caller nonce, pre-hashed digest, sign_message) x both hashes x compressed/uncompressed keys biased to 1,2,3,n-1,n-2 and near n; signatures travel to four real verification entry points and a textbook verifier correctly paired, mispaired (message/hash/key) or replayed; requests are re-issued later under other entropy scripts; ECDH on both sides. Oracles: own signature verifies at both verifiers, mispairings rejected by both, s <= n/2, deterministic entry points draw 0 entropy bytes and are reproducible, randomised draws exactly 32 bytes and is a function of them, every signature equals bit-for-bit an independent RFC 6979 (incl. section 3.6 variant over SHA-256 / double-SHA-256) + textbook signing + low-S computation, ECDH symmetric and equal to x(a*B). Sampling; quick = 20k histories.",
   note="Trusted: k256 scalar/point arithmetic (shared by both sides), sha2. RFC 6979 equality and the reference half of ECDH are reference-model oracles with no simulator dimension of their own; they ride in this world because it exists for the entropy clause. Entropy is owned through the cfg(bsv_verif) hook; with the guard off the library uses OsRng as shipped.",
   technique="deterministic simulation: scripted OS-entropy seam + two-party exchange with mispairing/replay faults, reference-peer oracles"),
 "C11": dict(section="4/C11", scenario="ecies-net",
   text="Seeded exploration of exchange histories between a real sender, a real recipient, an independent BIE1 peer and a corrupting channel: five encryption entry points incl. the ephemeral-key one whose key comes from the scripted entropy seam (0-3 rejected candidates first), keys biased to 1,2,n-1,n-2, message lengths over every residue mod 16 up to 32 KiB; channel flips single bits in magic/embedded key/body/MAC and replays; delivery to real or reference recipient with the sender key known or taken from the ciphertext, right or wrong keys. Oracles: intact+right keys decrypts to the message in all four sender/recipient pairings (also after serialise/parse), the library's wire bytes equal the peer's, any flip outside the magic or any wrong key yields an error never plaintext, replay is stable, the ephemeral path draws exactly (k+1)*32 bytes. Sampling; quick = 20k exchanges.",
   note="RefPeer = BIE1 written against k256 arithmetic, sha2, a hand-written CBC/PKCS7 over the aes block cipher and textbook HMAC. A flip inside the 4 magic bytes must give an error or exactly the message (statement does not list the magic). Truncation/extension belong to C09.",
   technique="deterministic simulation: scripted OS-entropy seam + two-party exchange over a bit-flipping/replaying/misdelivering channel, reference-peer oracles"),
 "C13": dict(section="4/C13", scenario="digest-stream",
   text="Seeded exploration of feeding schedules over 1-3 live digest sinks (Sha256r, Sha256d, Hash160 and hmac::Hmac over each): messages with lengths on every padding/block boundary are cut by six fragmentation policies (1-byte dribble, block-aligned, cut at 55/56/57/63/64/65/111/112/119/120/127/128, random, zero-length fragments interleaved, one-shot) into update calls, with clone-forks, reverse(), reset and four finishing calls placed mid-stream, second messages after *_reset, plus the one-shot Hash::*, Hash::*_hmac and KDF::pbkdf2 entry points. Oracle: every finalisation equals the primitive-crate hash of exactly the bytes accepted since the last reset (reversed iff obtained through reverse()), forks are independent; HMAC/PBKDF2 equal textbook RFC 2104 / RFC 8018 compositions. Sampling; quick = 100k schedules.",
   note="sha2 / sha-1 / ripemd160 crates are the reference for the published algorithms. The adapters' io::Write impl is compiled out in every build of bsv (digest::impl_write! is gated on a `std` feature bsv does not define), so the io::Write fragmentation path of DESIGN.md does not exist and is not exercised. Reversed instances are never reset. HMAC/PBKDF2 and SHA-1/SHA-512/RIPEMD one-shots are reference-model oracles without a schedule dimension.",
   technique="deterministic simulation: seeded fragmentation/fork/reset scheduler over streaming digest sinks, model-based oracle"),
 "C15": dict(section="4/C15", scenario="spend-net",
   text="Seeded exploration of collaborative-build histories on one shared Transaction: builders append inputs/outputs, signers sign P2PK / P2PKH / m-of-n multisig inputs (CHECKSIG and *VERIFY forms, code separators at seeded positions incl. inside and after an always-taken OP_IF) through Transaction::sign with any of the 12 standard flag bytes at any point of the build, finalise assembles unlocking scripts through the library API, parties mutate one field after signing (version, locktime, own/other outpoint, own/other sequence, output value/script, output/input count, declared value, key byte, signature byte, flag byte, signature order, wrong signer), a byzantine peer signs the byte-reversed digest, the transaction is shipped through extended CBOR/JSON, and the validator runs Interpreter::from_transaction on the live object and the shipped copy. Oracle: accept iff every used signature's covered view (field table per flag, FORKID and legacy) is unchanged since signing, keys/order match and nothing was tampered - checked in both directions; live and shipped verdicts agree. Sampling; quick = 15k histories.",
   note="The covered-view table is the model (40 lines, field level, not a byte-level preimage: byte layout is C03/C10). Value mutations are not generated for legacy-flag signatures (the original algorithm does not commit to the value). Ship applied only when faithful. Known findings: reversed-digest signatures accepted; separators inside/after a spliced conditional give the wrong subscript.",
   technique="deterministic simulation: seeded multi-party sign/mutate/finalise/ship/validate scheduler with byzantine signer and tampering faults, covered-view model oracle"),
}

NA = {
 "C01": "pure codec on an in-memory buffer; no schedule, clock, entropy, I/O or fault enters Transaction::from_bytes/to_bytes (DESIGN.md 1.1, 4/C01)",
 "C02": "Script::from_bytes/to_bytes/encode_pushdata are stateless functions of their argument; a truncated push is a prefix of the input, an input class not a fault (DESIGN.md 4/C02)",
 "C03": "given C04 (no history dependence) the FORKID preimage is a pure function of (tx, index, flag, subscript, value); deciding byte-equality with the spec needs a reference implementation and inputs only (DESIGN.md 4/C03)",
 "C06": "DER/compact encode-decode and key recovery are stateless functions of their argument (DESIGN.md 4/C06)",
 "C07": "WIF / SEC1 / Base58Check conversions are stateless; accept/reject sets are input sets (DESIGN.md 4/C07)",
 "C08": "BIP32 derivation and xprv/xpub (de)serialisation are pure functions; from_random is not part of the property (DESIGN.md 4/C08)",
 "C10": "legacy preimage is a pure function of (tx, index, flag, subscript); legacy paths never touch the memo cache (DESIGN.md 4/C10)",
 "C12": "BSM sign uses the deterministic nonce and no state; verify is a stateless predicate (DESIGN.md 4/C12)",
 "C14": "opcode semantics are a pure function program -> stacks; the driver-schedule and fault aspects of the same code are C16 (DESIGN.md 4/C14)",
 "C17": "ASM text codecs are stateless (DESIGN.md 4/C17)",
 "C18": "serde JSON/CBOR conversions are stateless; the one interaction with state (skipped hash_cache) is exercised as C04's restart events (DESIGN.md 4/C18)",
 "C19": "template parsing/matching/criteria selection are pure predicates (DESIGN.md 4/C19)",
 "C20": "AES encrypt/decrypt build a fresh cipher per call; no state, entropy or stream survives a call (DESIGN.md 4/C20)",
}
PENDING = {
 "C05": "claimed in DESIGN.md (entropy seam of the randomised signer); scenario ecdsa-net not yet built in this tree",
 "C09": "claimed in DESIGN.md (allocator/process-abort seam); scenario artefact-medium not yet built in this tree",
 "C11": "claimed in DESIGN.md (entropy seam + two parties + corrupting channel); scenario ecies-net not yet built in this tree",
 "C13": "claimed in DESIGN.md (fragmentation schedule of the streaming digest sinks); scenario digest-stream not yet built in this tree",
 "C15": "claimed in DESIGN.md (sign/mutate interleavings, stale cache into the validator); scenario spend-net not yet built in this tree",
 "C16": "claimed in DESIGN.md (driver schedule, failing stdout); scenario interp-driver not yet built in this tree",
}

def main():
    import os
    built = set(CLAIMED)
    src = open('/verif/sim/src/scenarios.rs').read()
    checks = []
    for pid, c in sorted(CLAIMED.items()):
        assert f'"{pid}"' in src, pid
        checks.append({
            "property_id": pid,
            "quick_cmd": f"./check {pid} quick",
            "thorough_cmd": f"./check {pid} thorough",
            "evidence_file": f"/verif/evidence/{pid}.json",
            "replay_cmd_template": f"./check {pid} --replay {{path}}",
            "engine": "bsvsim",
            "level_claimed": {"category": "exploration", "text": c["text"], "design_ref": c["section"]},
            "level_note": c["note"],
            "technique": c["technique"],
        })
    na = [{"property_id": k, "reason": v} for k, v in sorted(NA.items())]
    na += [{"property_id": k, "reason": v} for k, v in sorted(PENDING.items()) if k not in built]
    hooks = subprocess.run(["git", "-C", "/repo", "log", "--format=%h %s"], capture_output=True, text=True).stdout.splitlines()
    hook_commits = [l.split()[0] for l in hooks if l.split(' ', 1)[1].startswith("verif hooks")]
    m = {
        "version": 1,
        "setup_cmd": "cd /verif/sim && CARGO_NET_OFFLINE=true cargo build --release --offline",
        "hooks": {
            "guard": "bsv_verif",
            "enable": "RUSTFLAGS=\"--cfg bsv_verif\" (set in /verif/sim/.cargo/config.toml); /verif/sim depends on bsv by path=/repo, so `cd /verif/sim && cargo build --release --offline` rebuilds /repo's working tree with the hooks on",
            "baseline_off_cmd": "cd /repo && cargo test --workspace --no-fail-fast --offline",
            "source_commits": hook_commits,
            "add_only": True,
        },
        "engines": [{"name": "bsvsim", "path": "/verif/sim", "serves_properties": sorted(built),
                     "kind_free_text": "purpose-built deterministic simulator (Rust): seeded scheduler over API-call histories / driver schedules, fault injection at the library's five seams (call history + volatile cache, interpreter step machine, process stdout, OS entropy, allocator), worker processes with death attribution, ddmin minimiser, explicit-event-list replay files"}],
        "checks": checks,
        "not_applicable": na,
        "notes": "See DESIGN.md. Exit codes: 0 held, 1 violation (VIOLATION line), 2 harness error. VERIF_SEED/VERIF_TIER honoured; VERIF_RUNS/VERIF_WORKERS override budgets for experiments.",
    }
    json.dump(m, open('/verif/MANIFEST.json', 'w'), indent=1)
    print("checks:", [c["property_id"] for c in checks], "n/a:", len(na))

main()
