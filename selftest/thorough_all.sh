#!/bin/bash
# Runs every claimed property's thorough check once (used with `vp run` for background sweeps).
cd "$(dirname "$0")/.."
# under `vp run --with-repo` build against the repository snapshot, not the live /repo
if [ -n "${VP_RUN_REPO:-}" ]; then sed -i "s#path = \"/repo\"#path = \"$VP_RUN_REPO\"#" sim/Cargo.toml; fi
for id in C13 C15 C11 C05 C16 C04 C09; do
  echo "=== $id thorough $(date +%T)"
  VERIF_NO_EVIDENCE=${VERIF_NO_EVIDENCE:-1} VERIF_LIST_ALL=1 ./check $id thorough 2>&1 | grep -vE "^\s+\|" | tail -25
done
echo "=== done $(date +%T)"
