#!/usr/bin/env python3
"""Rewrites the seeded-change table in DESIGN.md section 11 from /verif/seeded/*/meta.json."""
import json, glob, re
rows=[]
for f in sorted(glob.glob('/verif/seeded/*/meta.json')):
    m=json.load(open(f)); name=f.split('/')[-2]
    r=m.get('result',{})
    rows.append(f"| {name} | {m['property']} | {m.get('needs_to_manifest','').replace('|','/')} | {r.get('status','?')} | {r.get('detected_by','').replace('|','/')} | {m.get('strengthening','').replace('|','/')} |")
table="<!-- SEEDED-TABLE-BEGIN -->\n| change | property | what it needs to manifest | result | detecting check / tier [signature] | what I had to strengthen first |\n|---|---|---|---|---|---|\n"+"\n".join(rows)+"\n<!-- SEEDED-TABLE-END -->"
p='/verif/DESIGN.md'; s=open(p).read()
if '<!-- SEEDED-TABLE-BEGIN -->' in s:
    s=re.sub(r"<!-- SEEDED-TABLE-BEGIN -->.*<!-- SEEDED-TABLE-END -->", lambda _: table, s, flags=re.S)
else:
    s=s.rstrip()+"\n\n"+table+"\n"
open(p,'w').write(s)
print(len(rows),"rows")
