#!/usr/bin/env python3
"""Regenerates /verif/MANIFEST.json from the tables below (kept in one place so it stays valid)."""
import json, subprocess

CLAIMED = {
 "C04": dict(section="4/C04", scenario="tx-history",
   text="Seeded exploration of API-call histories on 1-4 live Transaction objects: a systematic prefix enumerates every sequence of depth <=3 (quick) / <=4 (thorough) over a 35-operation alphabet (every mutator with the argument variants that matter, every cache-filling flag class, out-of-range SINGLE, sign, hash_inputs, fork, switch-object, restart), followed by seeded random histories of 5-40 calls (all 14 mutators x all 14 flag values x clone forks x wire/JSON/CBOR restarts). After every event every live object is compared with a freshly parsed copy: preimage / signature / Ok-vs-Err equality, every filled memo slot (seen through the verif hook) equals what a history-free object computes, model serialisation, no cross-object change of contents. Sampling beyond the enumerated depth; quick = 80k histories.",
   note="Trusted: Transaction::from_bytes(to_bytes()) yields a history-free object; the hook verif_hash_cache is a faithful read-only view (a HashCache refactor breaks it at compile time -> exit 2); reference serialiser in scen_txhist.rs. A hang inside a library call (e.g. a lock shared between clones) is reported as class timeout after confirmation in a fresh process with a 240 s watchdog.",
   technique="deterministic simulation: seeded (and depth-bounded enumerated) API-history scheduler with fork/restart events, differential oracle against a history-free copy"),
 "C05": dict(section="4/C05", scenario="ecdsa-net",
   text="Seeded exploration of signing-world histories: every signing entry point (deterministic nonce in both byte-order modes, randomised nonce with its OS-entropy draw scripted through the hook, caller nonce incl. private keys solved so that the raw s is exactly (n-1)/2, (n+1)/2, 1 or n-1, pre-hashed digest incl. caller-chosen digests 0 / n-1 / n / >n / ff..ff, sign_message) x both hashes x compressed/uncompressed keys biased to 1,2,3,n-1,n-2 and near n x messages from 0 bytes over the SHA-256 block boundaries to >64 KiB; signatures travel to five real verification entry points and a textbook verifier, correctly paired (also with the key in the other SEC1 encoding), mispaired (message / hash / other key / negated key) or replayed; requests are re-issued later under other entropy scripts and with other private keys; ECDH on both sides. Oracles: own signature verifies at both verifiers, mispairings rejected by both, s <= n/2, deterministic entry points reproducible and bit-for-bit equal to an independent RFC 6979 + textbook signing + low-S computation, the randomised signer's output changes with its draw, ECDH symmetric and equal to x(a*B). Sampling; quick = 20k histories.",
   note="Trusted: k256 scalar/point arithmetic (both sides), sha2. How the randomised signer uses its draw, and how many bytes anybody draws, is recorded as probes only (the statement does not prescribe it). RFC 6979 equality and the reference half of ECDH are reference-model oracles riding in this world. One algebraic degenerate case is skipped: message scalar 0 with the negated key.",
   technique="deterministic simulation: scripted OS-entropy seam + two-party exchange with mispairing/replay faults, reference-peer oracles"),
 "C09": dict(section="4/C09", scenario="artefact-medium",
   text="Seeded exploration over 59 public decoding entry points: a producer makes a valid artefact with the real encoder (incl. coinbase-shaped inputs, structurally valid keys with unusable key material, scripts nested to 2*10^5), a medium applies 0-3 faults (truncate, bit flip, byte set, length-field inflation with 39 compact-size/PUSHDATA/CBOR-head patterns at located heads or seeded offsets, CBOR array nesting to 2*10^5, JSON value substitution, text token substitution/insertion, junk, splice, duplication, emptying, random replacement), optionally misdelivers it to another decoder, and the real decoder runs in a worker whose allocator refuses any request lifting live heap above 1024*len+8MiB (and whose largest single request is bounded likewise). Panics are caught with their site; allocator exhaustion, native stack overflow and hangs kill the worker and are attributed to run and decoder by the parent through a shared-memory breadcrumb. Sampling; quick = 300k artefacts.",
   note="alpha calibrated at 4x the largest fault-free peak/len ratio (histogram in evidence on every run); CBOR decoders get beta=320MiB because serde pre-allocates min(declared, 1MiB) per sequence and ciborium recurses <=256 levels (a constant, not a declared length) - the single-request bound still applies. Inputs to base58 decoders are capped at 8KiB (quadratic time; the property does not bound time). Scenario code runs on an explicit 8MiB stack. Known finding: recursive conditional parser overflows the stack at ~29 000 nesting (8 decoder kinds).",
   technique="deterministic simulation: seeded producer/medium/consumer pipeline with storage-fault injection, budgeted allocator and worker-process death attribution"),
 "C11": dict(section="4/C11", scenario="ecies-net",
   text="Seeded exploration of exchange histories between a real sender, a real recipient, an independent BIE1 peer and a corrupting channel: five encryption entry points incl. the ephemeral-key one whose randomness comes from the scripted entropy seam (0-3 rejected candidates first), keys biased to 1,2,n-1,n-2, compressed and uncompressed recipient keys, message lengths over every residue mod 16 up to 64 KiB with tails that look like PKCS#7 padding; the channel flips single bits in magic / embedded key / body / MAC and replays; delivery to the real or the reference recipient with the sender key known or taken from the ciphertext, right or wrong keys, on a freshly parsed ciphertext object or on one that was already opened. Oracles: intact + right keys decrypts to the message in all sender/recipient pairings (also after serialise/parse), the library's wire bytes equal the peer's (for the ephemeral path: the peer opens it with the recipient key), any flip outside the magic or any wrong key yields an error never plaintext, replays are stable. Sampling; quick = 40k exchanges.",
   note="RefPeer = BIE1 written against k256 arithmetic, sha2, a hand-written CBC/PKCS7 over the aes block cipher and textbook HMAC. A flip inside the 4 magic bytes must give an error or exactly the message. How the ephemeral key is derived from the draw is recorded as a probe only. Truncation/extension belong to C09.",
   technique="deterministic simulation: scripted OS-entropy seam + two-party exchange over a bit-flipping/replaying/misdelivering channel, reference-peer oracles"),
 "C13": dict(section="4/C13", scenario="digest-stream",
   text="Seeded exploration of feeding schedules over 1-3 live digest sinks (Sha256r, Sha256d, Hash160 and hmac::Hmac over each): messages with lengths on every padding/block boundary are cut by six fragmentation policies (1-byte dribble, block-aligned, cut at 55/56/57/63/64/65/111/112/119/120/127/128, random, zero-length fragments interleaved, one-shot) into update calls, with clone-forks, reverse(), reset and four finishing calls placed mid-stream (also on reversed instances), second messages after *_reset, plus the one-shot Hash::*, Hash::*_hmac (keys below/at/above the block size, the same key through all six hashes in a row) and KDF::pbkdf2 (output lengths on and around multiples of the hash length, passwords of exactly one block). Oracle: every finalisation equals the primitive-crate hash of exactly the bytes accepted since the last reset (reversed iff obtained through reverse()), forks are independent; HMAC/PBKDF2 equal textbook RFC 2104 / RFC 8018 compositions. Sampling; quick = 100k schedules.",
   note="sha2 / sha-1 / ripemd160 crates are the reference for the published algorithms. The adapters' io::Write impl is compiled out in every build of bsv (digest::impl_write! is gated on a `std` feature bsv does not define), so that fragmentation path does not exist. Assumption: an instance obtained through reverse() stays reversed across reset (what the shipped adapters do). HMAC/PBKDF2 and SHA-1/SHA-512/RIPEMD one-shots are reference-model oracles without a schedule dimension.",
   technique="deterministic simulation: seeded fragmentation/fork/reset scheduler over streaming digest sinks, model-based oracle"),
 "C15": dict(section="4/C15", scenario="spend-net",
   text="Seeded exploration of collaborative-build histories on one shared Transaction: builders append / insert / prepend / replace inputs and outputs (incl. counts at 252/253), signers sign P2PK / P2PKH / m-of-n multisig (incl. duplicate and uncompressed keys) / two-check inputs (CHECKSIG and *VERIFY forms, code separators at seeded positions incl. inside and after taken conditionals with and without else branches, scripts padded across the 75/76, 252/253 and 64 KiB boundaries) with any of the 12 standard flag bytes at any point of the build, either through Transaction::sign or as an honest reference peer that signs an independently computed specified preimage; finalise assembles unlocking scripts through the library API; parties mutate one field after signing (version, locktime, own/other outpoint, own/other sequence, output value/script, counts, declared value, a byte anywhere in the used key, a signature byte, an extra byte before the flag, the flag byte, signature order, duplicate signer, wrong signer); a byzantine peer signs the byte-reversed digest; the transaction is shipped through extended CBOR/JSON; the validator runs on the live object and the shipped copy, also with stdout failing. Oracles: accept iff every used signature's covered view (field table per flag) is unchanged since signing, keys/order match and nothing is tampered - both directions; every library signature verifies under a textbook verifier over the reference preimage; live and shipped verdicts agree. Sampling; quick = 15k histories.",
   note="Model = covered-view table (~60 lines) + reference preimage (~90 lines, FORKID digest and original algorithm, no library code) + textbook ECDSA. Value mutations are not generated for legacy-flag signatures. Ship applied only when faithful. Known findings: reversed-digest signatures accepted; separators inside/after a spliced conditional give the wrong subscript.",
   technique="deterministic simulation: seeded multi-party sign/mutate/finalise/ship/validate scheduler with honest and byzantine reference signers and tampering faults, covered-view + reference-preimage oracle"),
 "C16": dict(section="4/C16", scenario="interp-driver",
   text="A systematic prefix enumerates every parseable opcode byte on every stack of depth 0-3 over an operand alphabet of 18 edge encodings, each stepped, forked and run; then seeded exploration of generated programs (all opcode bytes incl. reserved/disabled/template pseudo-opcodes, Coinbase bits, nested conditionals, edge-encoded operands incl. +-2^31 as 5-byte numbers, spending-transaction context with real signatures, wide CHECKMULTISIG, separators inside spliced branches, rarely 2*10^5-deep nesting) under seeded driver schedules (next / next_n / run / accessors / clone-forks on up to 3 interpreters) while the worker's real fd 1 is made to fail (ENOSPC via /dev/full, EPIPE, EAGAIN after N bytes, EBADF control) and healed. Oracles: no panic (site#opcode), bounded step count, every schedule observes the reference single-step trace state for state and ends in its outcome, stacks unchanged after an error (also on repeated calls) and after None. Sampling beyond the enumerated part; quick = 110k programs x schedules.",
   note="Reference trace is the library itself single-stepped with a healthy stdout (self-consistency, not opcode semantics - that is C14). Programs whose next step would allocate > ~1 MiB per operand are dropped; allocator-exhaustion aborts are a `resource` outcome because C16 does not bound memory. overflow-checks are on (as in the repo's own test profile). Known finding: ScriptBit's derived recursive Clone/Drop overflow the stack beyond ~37 000 nesting (constructed scripts only; the parser stops earlier).",
   technique="deterministic simulation: seeded (and enumerated per-opcode) driver-schedule scheduler over the interpreter step machine with stdout fault injection (real fd 1), differential oracle against a single-step reference trace"),
}

NA = {
 "C01": "pure codec on an in-memory buffer; no schedule, clock, entropy, I/O or fault enters Transaction::from_bytes/to_bytes (DESIGN.md 1.1, 4/C01)",
 "C02": "Script::from_bytes/to_bytes/encode_pushdata are stateless functions of their argument; a truncated push is a prefix of the input, an input class not a fault (DESIGN.md 4/C02)",
 "C03": "given C04 (no history dependence) the FORKID preimage is a pure function of (tx, index, flag, subscript, value); deciding byte-equality with the spec needs a reference implementation and inputs only (DESIGN.md 4/C03)",
 "C06": "DER/compact encode-decode and key recovery are stateless functions of their argument (DESIGN.md 4/C06)",
 "C07": "WIF / SEC1 / Base58Check conversions are stateless; accept/reject sets are input sets (DESIGN.md 4/C07)",
 "C08": "BIP32 derivation and xprv/xpub (de)serialisation are pure functions; from_random is not part of the property (DESIGN.md 4/C08)",
 "C10": "legacy preimage is a pure function of (tx, index, flag, subscript); legacy paths never touch the memo cache (DESIGN.md 4/C10)",
 "C12": "BSM sign uses the deterministic nonce and no state; verify is a stateless predicate (DESIGN.md 4/C12)",
 "C14": "opcode semantics are a pure function program -> stacks; the driver-schedule and fault aspects of the same code are C16 (DESIGN.md 4/C14)",
 "C17": "ASM text codecs are stateless (DESIGN.md 4/C17)",
 "C18": "serde JSON/CBOR conversions are stateless; the one interaction with state (skipped hash_cache) is exercised as C04's restart events (DESIGN.md 4/C18)",
 "C19": "template parsing/matching/criteria selection are pure predicates (DESIGN.md 4/C19)",
 "C20": "AES encrypt/decrypt build a fresh cipher per call; no state, entropy or stream survives a call (DESIGN.md 4/C20)",
}
PENDING = {
 "C05": "claimed in DESIGN.md (entropy seam of the randomised signer); scenario ecdsa-net not yet built in this tree",
 "C09": "claimed in DESIGN.md (allocator/process-abort seam); scenario artefact-medium not yet built in this tree",
 "C11": "claimed in DESIGN.md (entropy seam + two parties + corrupting channel); scenario ecies-net not yet built in this tree",
 "C13": "claimed in DESIGN.md (fragmentation schedule of the streaming digest sinks); scenario digest-stream not yet built in this tree",
 "C15": "claimed in DESIGN.md (sign/mutate interleavings, stale cache into the validator); scenario spend-net not yet built in this tree",
 "C16": "claimed in DESIGN.md (driver schedule, failing stdout); scenario interp-driver not yet built in this tree",
}

def main():
    import os
    built = set(CLAIMED)
    src = open('/verif/sim/src/scenarios.rs').read()
    checks = []
    for pid, c in sorted(CLAIMED.items()):
        assert f'"{pid}"' in src, pid
        checks.append({
            "property_id": pid,
            "quick_cmd": f"./check {pid} quick",
            "thorough_cmd": f"./check {pid} thorough",
            "evidence_file": f"/verif/evidence/{pid}.json",
            "replay_cmd_template": f"./check {pid} --replay {{path}}",
            "engine": "bsvsim",
            "level_claimed": {"category": "exploration", "text": c["text"], "design_ref": c["section"]},
            "level_note": c["note"],
            "technique": c["technique"],
        })
    na = [{"property_id": k, "reason": v} for k, v in sorted(NA.items())]
    na += [{"property_id": k, "reason": v} for k, v in sorted(PENDING.items()) if k not in built]
    hooks = subprocess.run(["git", "-C", "/repo", "log", "--format=%h %s"], capture_output=True, text=True).stdout.splitlines()
    hook_commits = [l.split()[0] for l in hooks if l.split(' ', 1)[1].startswith("verif hooks")]
    m = {
        "version": 1,
        "setup_cmd": "cd /verif/sim && CARGO_NET_OFFLINE=true cargo build --release --offline",
        "hooks": {
            "guard": "bsv_verif",
            "enable": "RUSTFLAGS=\"--cfg bsv_verif\" (set in /verif/sim/.cargo/config.toml); /verif/sim depends on bsv by path=/repo, so `cd /verif/sim && cargo build --release --offline` rebuilds /repo's working tree with the hooks on",
            "baseline_off_cmd": "cd /repo && cargo test --workspace --no-fail-fast --offline",
            "source_commits": hook_commits,
            "add_only": True,
        },
        "engines": [{"name": "bsvsim", "path": "/verif/sim", "serves_properties": sorted(built),
                     "kind_free_text": "purpose-built deterministic simulator (Rust): seeded scheduler over API-call histories / driver schedules, fault injection at the library's five seams (call history + volatile cache, interpreter step machine, process stdout, OS entropy, allocator), worker processes with death attribution, ddmin minimiser, explicit-event-list replay files"}],
        "checks": checks,
        "not_applicable": na,
        "notes": "See DESIGN.md. Exit codes: 0 held, 1 violation (VIOLATION line), 2 harness error. VERIF_SEED/VERIF_TIER honoured; VERIF_RUNS/VERIF_WORKERS override budgets for experiments.",
    }
    json.dump(m, open('/verif/MANIFEST.json', 'w'), indent=1)
    print("checks:", [c["property_id"] for c in checks], "n/a:", len(na))

main()
