#!/bin/bash
# Thorough tier of every check under several other VERIF_SEED values (background exploration; never evidence).
cd "$(dirname "$0")/.."
if [ -n "${VP_RUN_REPO:-}" ]; then sed -i "s#path = \"/repo\"#path = \"$VP_RUN_REPO\"#" sim/Cargo.toml; fi
for seed in "$@"; do
  for id in C13 C15 C11 C05 C16 C04 C09; do
    echo "=== $id thorough seed=$seed $(date +%T)"
    VERIF_SEED=$seed VERIF_NO_EVIDENCE=1 VERIF_LIST_ALL=1 ./check $id thorough 2>&1 | grep -vE "^\s+\||^KNOWN" | tail -12
  done
done
echo "=== done $(date +%T)"
