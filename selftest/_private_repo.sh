# Sourced by the self-tests that change the repository's working tree (seeded.sh, fixes.sh, benign.sh), right after they
# have changed into /verif. Such a self-test never works on the live /repo: a run that is stopped between "apply the
# patch" and "restore the tree" would leave a deliberately broken library behind (this happened once: see DESIGN.md,
# section 12). Under `vp run --with-repo` the job already has a private snapshot ($VP_RUN_REPO). Otherwise a private clone
# of /repo's HEAD and a private copy of /verif's sources are made under /var/tmp, the self-test re-executes itself there,
# and both are removed when it ends, however it ends; what it saved under findings/ is copied back.
if [ -z "${VP_RUN_REPO:-}" ]; then
  if [ -n "$(git -C /repo status --porcelain)" ]; then echo "repo working tree not clean" >&2; exit 2; fi
  _S=$(mktemp -d /var/tmp/bsv-selftest.XXXXXX) || exit 2
  trap 'rm -rf "$_S"' EXIT
  trap 'exit 130' INT TERM HUP
  git clone -q /repo "$_S/repo" || exit 2
  mkdir "$_S/verif"
  # tracked and new files as they are in the working tree (so an uncommitted harness edit is what gets tested); no build output
  git ls-files -z -co --exclude-standard | xargs -0 cp --parents -t "$_S/verif" 2>/dev/null
  ( cd "$_S/verif" && VP_RUN_REPO="$_S/repo" VERIF_ROOT="$_S/verif" bash "selftest/$(basename "$0")" "$@" ); _rc=$?
  for _f in "$_S"/verif/findings/*.json; do [ -f "$_f" ] && [ ! -f "findings/$(basename "$_f")" ] && cp "$_f" findings/; done
  exit $_rc
fi
if [ "$(realpath "$VP_RUN_REPO")" = /repo ]; then echo "refusing to patch the live /repo" >&2; exit 2; fi
