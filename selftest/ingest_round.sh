#!/bin/bash
# ingest_round.sh <ID> <outdir> <suffix>: confirm each m<k> of a sub-agent in the scratch worktree, copy it to /verif/seeded/<ID>-<suffix><k>
ID=$1; OUT=$2; SUF=$3
for d in $OUT/m*; do
  k=$(basename $d | sed 's/m//')
  /verif/selftest/confirm_seeded.sh /tmp/mut/$ID $d
  t=/verif/seeded/$ID-$SUF$k; mkdir -p $t
  cp $d/patch.diff $d/demo.rs $d/notes.md $t/
  echo "{\"property\": \"$ID\", \"status\": \"unconfirmed\"}" > $t/meta.json
done
