//! bsvsim — deterministic simulator with fault injection for the bsv crate.
mod core;
mod faults;
mod orch;
mod rng;
mod scenarios;
mod scen_artefact;
mod scen_digest;
mod refimpl;
mod scen_ecdsa;
mod scen_ecies;
mod scen_interp;
mod scen_spend;
mod scen_txhist;

use crate::core::Tier;
use std::collections::BTreeSet;
use std::path::PathBuf;

#[global_allocator]
static GLOBAL: faults::SimAlloc = faults::SimAlloc;

fn arg_after(args: &[String], flag: &str) -> Option<String> {
    args.iter().position(|a| a == flag).and_then(|i| args.get(i + 1)).cloned()
}

fn env_u64(name: &str) -> Option<u64> {
    std::env::var(name).ok().and_then(|s| {
        let s = s.trim();
        if let Some(h) = s.strip_prefix("0x") {
            u64::from_str_radix(h, 16).ok()
        } else {
            s.parse().ok()
        }
    })
}

fn read_known(path: Option<String>) -> BTreeSet<String> {
    match path {
        Some(p) => std::fs::read_to_string(p).ok().and_then(|t| serde_json::from_str::<Vec<String>>(&t).ok()).map(|v| v.into_iter().collect()).unwrap_or_default(),
        None => BTreeSet::new(),
    }
}

fn main() {
    let args: Vec<String> = std::env::args().collect();
    if args.len() < 2 {
        eprintln!("usage: bsvsim orchestrate <scenario|ID> <quick|thorough> | replay <file> | plan <scenario> <run> | worker ... | exec ...");
        std::process::exit(2);
    }
    match args[1].as_str() {
        "orchestrate" => {
            let scenario = args.get(2).cloned().unwrap_or_default();
            let tier = std::env::var("VERIF_TIER").ok().and_then(|t| Tier::parse(&t)).or_else(|| args.get(3).and_then(|t| Tier::parse(t))).unwrap_or(Tier::Quick);
            // an explicit tier argument wins over VERIF_TIER
            let tier = args.get(3).and_then(|t| Tier::parse(t)).unwrap_or(tier);
            let seed = env_u64("VERIF_SEED").unwrap_or(orch::DEFAULT_SEED);
            let workers = env_u64("VERIF_WORKERS").map(|w| w as usize).unwrap_or_else(|| std::thread::available_parallelism().map(|n| n.get()).unwrap_or(4).min(16));
            let code = orch::orchestrate(orch::OrchArgs { scenario, tier, seed, runs: env_u64("VERIF_RUNS"), workers, write_evidence: std::env::var("VERIF_NO_EVIDENCE").is_err() });
            std::process::exit(code);
        }
        "selftest" => {
            let what = args.get(2).cloned().unwrap_or_default();
            match what.as_str() {
                "determinism" => {
                    let seeds = env_u64("VERIF_SELFTEST_SEEDS").unwrap_or(8);
                    let runs = env_u64("VERIF_SELFTEST_RUNS").unwrap_or(64);
                    std::process::exit(orch::selftest_determinism(seeds, runs));
                }
                _ => {
                    eprintln!("usage: bsvsim selftest determinism");
                    std::process::exit(2);
                }
            }
        }
        "replay" => {
            let p = PathBuf::from(args.get(2).cloned().unwrap_or_default());
            std::process::exit(orch::replay_main(&p, true));
        }
        "plan" => {
            let scenario = args.get(2).cloned().unwrap_or_default();
            let run: u64 = args.get(3).and_then(|s| s.parse().ok()).unwrap_or(0);
            let tier = args.get(4).and_then(|t| Tier::parse(t)).unwrap_or(Tier::Quick);
            let seed = env_u64("VERIF_SEED").unwrap_or(orch::DEFAULT_SEED);
            let plan = orch::plan_for(&scenario, seed, tier, run);
            println!("{}", serde_json::to_string_pretty(&plan.to_json()).unwrap());
        }
        "worker" => {
            let scenario = args.get(2).cloned().unwrap_or_default();
            let seed: u64 = arg_after(&args, "--seed").and_then(|s| s.parse().ok()).unwrap_or(orch::DEFAULT_SEED);
            let tier = arg_after(&args, "--tier").and_then(|t| Tier::parse(&t)).unwrap_or(Tier::Quick);
            let list = arg_after(&args, "--list").unwrap_or_default();
            let indices: Vec<u64> = std::fs::read_to_string(&list).unwrap_or_default().lines().filter_map(|l| l.trim().parse().ok()).collect();
            let out = PathBuf::from(arg_after(&args, "--out").unwrap_or_default());
            let crumb = arg_after(&args, "--crumb").map(PathBuf::from);
            let known = read_known(arg_after(&args, "--known"));
            orch::worker_main(orch::WorkerArgs { scenario, seed, tier, indices, out, crumb, known });
        }
        "exec" => {
            let scenario = args.get(2).cloned().unwrap_or_default();
            let plan = PathBuf::from(args.get(3).cloned().unwrap_or_default());
            let out = PathBuf::from(args.get(4).cloned().unwrap_or_default());
            let crumb = arg_after(&args, "--crumb").map(PathBuf::from);
            let known = read_known(arg_after(&args, "--known"));
            let trace = args.iter().any(|a| a == "--trace");
            orch::exec_main(&scenario, &plan, &out, crumb, known, trace);
        }
        _ => {
            eprintln!("unknown mode");
            std::process::exit(2);
        }
    }
}
