#!/usr/bin/env python3
"""Regenerates /verif/MANIFEST.json from the tables below (kept in one place so it stays valid)."""
import json, subprocess

CLAIMED = {
 "C04": dict(section="4/C04", scenario="tx-history",
   text="Seeded exploration of API-call histories (all 14 mutators x all 14 sighash flag values x clone forks x wire/JSON/CBOR restarts) on 1-4 live Transaction objects; after every event every live object is compared with a freshly parsed copy (preimage/signature equality, memo-slot invariant through the verif hook, model serialisation, fork isolation). Sampling, not proof: evidence of absence over the histories explored; the defect pattern has length 3 and quick covers 20k histories of length 5-40.",
   note="Trusted: Transaction::from_bytes(to_bytes()) yields a history-free object (wire parse never fills the cache - checked by the restart oracle); the verif hook verif_hash_cache is a faithful read-only view; reference serialiser in scen_txhist.rs.",
   technique="deterministic simulation: seeded API-history scheduler with fork/restart events, differential oracle against a history-free copy"),
 "C16": dict(section="4/C16", scenario="interp-driver",
   text="Seeded exploration of generated programs (all opcode bytes incl. reserved/disabled/template pseudo-opcodes, Coinbase bits, nested conditionals, edge-encoded operands, spending-transaction context with real signatures, separators inside spliced branches) under seeded driver schedules (next / next_n / run / accessors / clone-forks on up to 3 interpreters) while the worker's real fd 1 is made to fail (ENOSPC via /dev/full, EPIPE, EAGAIN after N bytes, EBADF control) and healed. Oracles: no panic (site#opcode), bounded step count, every schedule observes the reference single-step trace state for state and ends in its outcome, stacks unchanged after an error and after None. Sampling; quick = 20k programs x schedules.",
   note="Reference trace is the library itself single-stepped with a healthy stdout (self-consistency, not opcode semantics - that is C14). Programs whose next step would allocate > ~1 MiB per operand are dropped; allocator-exhaustion aborts are a `resource` outcome because C16 does not bound memory. overflow-checks are on (as in the repo's own test profile).",
   technique="deterministic simulation: seeded driver-schedule scheduler over the interpreter step machine with stdout fault injection (real fd 1), differential oracle against a single-step reference trace"),
 "C09": dict(section="4/C09", scenario="artefact-medium",
   text="Seeded exploration over 55 public decoding entry points: a producer makes a valid artefact with the real encoder, a medium applies 0-3 faults (truncate, bit flip, byte set, length-field inflation with 28 compact-size/PUSHDATA/CBOR-head patterns at located or seeded offsets, junk, splice, duplication, emptying, random replacement, conditional nesting to 2*10^5), optionally misdelivers it to another decoder, and the real decoder runs in a worker process whose allocator refuses any request lifting live heap above 1024*len+1MiB. Panics are caught with their site; allocator exhaustion, native stack overflow and hangs kill the worker and are attributed to run and decoder by the parent through a shared-memory breadcrumb. Sampling; quick = 60k artefacts.",
   note="alpha=1024/beta=1MiB calibrated at 4x the largest fault-free peak/len ratio (histogram in evidence on every run); CBOR decoders get beta=320MiB because serde pre-allocates min(declared, 1MiB) per sequence and ciborium recurses <=256 levels (a constant, not a declared length). Inputs to base58 decoders are capped at 8KiB (quadratic time; the property does not bound time). Scenario code runs on an explicit 8MiB stack. Known finding: recursive conditional parser overflows the stack at ~10^5 nesting (8 decoder kinds).",
   technique="deterministic simulation: seeded producer/medium/consumer pipeline with storage-fault injection, budgeted allocator and worker-process death attribution"),
}

NA = {
 "C01": "pure codec on an in-memory buffer; no schedule, clock, entropy, I/O or fault enters Transaction::from_bytes/to_bytes (DESIGN.md 1.1, 4/C01)",
 "C02": "Script::from_bytes/to_bytes/encode_pushdata are stateless functions of their argument; a truncated push is a prefix of the input, an input class not a fault (DESIGN.md 4/C02)",
 "C03": "given C04 (no history dependence) the FORKID preimage is a pure function of (tx, index, flag, subscript, value); deciding byte-equality with the spec needs a reference implementation and inputs only (DESIGN.md 4/C03)",
 "C06": "DER/compact encode-decode and key recovery are stateless functions of their argument (DESIGN.md 4/C06)",
 "C07": "WIF / SEC1 / Base58Check conversions are stateless; accept/reject sets are input sets (DESIGN.md 4/C07)",
 "C08": "BIP32 derivation and xprv/xpub (de)serialisation are pure functions; from_random is not part of the property (DESIGN.md 4/C08)",
 "C10": "legacy preimage is a pure function of (tx, index, flag, subscript); legacy paths never touch the memo cache (DESIGN.md 4/C10)",
 "C12": "BSM sign uses the deterministic nonce and no state; verify is a stateless predicate (DESIGN.md 4/C12)",
 "C14": "opcode semantics are a pure function program -> stacks; the driver-schedule and fault aspects of the same code are C16 (DESIGN.md 4/C14)",
 "C17": "ASM text codecs are stateless (DESIGN.md 4/C17)",
 "C18": "serde JSON/CBOR conversions are stateless; the one interaction with state (skipped hash_cache) is exercised as C04's restart events (DESIGN.md 4/C18)",
 "C19": "template parsing/matching/criteria selection are pure predicates (DESIGN.md 4/C19)",
 "C20": "AES encrypt/decrypt build a fresh cipher per call; no state, entropy or stream survives a call (DESIGN.md 4/C20)",
}
PENDING = {
 "C05": "claimed in DESIGN.md (entropy seam of the randomised signer); scenario ecdsa-net not yet built in this tree",
 "C09": "claimed in DESIGN.md (allocator/process-abort seam); scenario artefact-medium not yet built in this tree",
 "C11": "claimed in DESIGN.md (entropy seam + two parties + corrupting channel); scenario ecies-net not yet built in this tree",
 "C13": "claimed in DESIGN.md (fragmentation schedule of the streaming digest sinks); scenario digest-stream not yet built in this tree",
 "C15": "claimed in DESIGN.md (sign/mutate interleavings, stale cache into the validator); scenario spend-net not yet built in this tree",
 "C16": "claimed in DESIGN.md (driver schedule, failing stdout); scenario interp-driver not yet built in this tree",
}

def main():
    import os
    built = set(CLAIMED)
    src = open('/verif/sim/src/scenarios.rs').read()
    checks = []
    for pid, c in sorted(CLAIMED.items()):
        assert f'"{pid}"' in src, pid
        checks.append({
            "property_id": pid,
            "quick_cmd": f"./check {pid} quick",
            "thorough_cmd": f"./check {pid} thorough",
            "evidence_file": f"/verif/evidence/{pid}.json",
            "replay_cmd_template": f"./check {pid} --replay {{path}}",
            "engine": "bsvsim",
            "level_claimed": {"category": "exploration", "text": c["text"], "design_ref": c["section"]},
            "level_note": c["note"],
            "technique": c["technique"],
        })
    na = [{"property_id": k, "reason": v} for k, v in sorted(NA.items())]
    na += [{"property_id": k, "reason": v} for k, v in sorted(PENDING.items()) if k not in built]
    hooks = subprocess.run(["git", "-C", "/repo", "log", "--format=%h %s"], capture_output=True, text=True).stdout.splitlines()
    hook_commits = [l.split()[0] for l in hooks if l.split(' ', 1)[1].startswith("verif hooks")]
    m = {
        "version": 1,
        "setup_cmd": "cd /verif/sim && CARGO_NET_OFFLINE=true cargo build --release --offline",
        "hooks": {
            "guard": "bsv_verif",
            "enable": "RUSTFLAGS=\"--cfg bsv_verif\" (set in /verif/sim/.cargo/config.toml); /verif/sim depends on bsv by path=/repo, so `cd /verif/sim && cargo build --release --offline` rebuilds /repo's working tree with the hooks on",
            "baseline_off_cmd": "cd /repo && cargo test --workspace --no-fail-fast --offline",
            "source_commits": hook_commits,
            "add_only": True,
        },
        "engines": [{"name": "bsvsim", "path": "/verif/sim", "serves_properties": sorted(built),
                     "kind_free_text": "purpose-built deterministic simulator (Rust): seeded scheduler over API-call histories / driver schedules, fault injection at the library's five seams (call history + volatile cache, interpreter step machine, process stdout, OS entropy, allocator), worker processes with death attribution, ddmin minimiser, explicit-event-list replay files"}],
        "checks": checks,
        "not_applicable": na,
        "notes": "See DESIGN.md. Exit codes: 0 held, 1 violation (VIOLATION line), 2 harness error. VERIF_SEED/VERIF_TIER honoured; VERIF_RUNS/VERIF_WORKERS override budgets for experiments.",
    }
    json.dump(m, open('/verif/MANIFEST.json', 'w'), indent=1)
    print("checks:", [c["property_id"] for c in checks], "n/a:", len(na))

main()
