//! Scenario interface, per-run context, panic capture, breadcrumbs.

use crate::rng::{Fnv, Rng};
use serde_json::{json, Value};
use std::cell::RefCell;
use std::collections::{BTreeMap, BTreeSet};
use std::panic::{self, AssertUnwindSafe};

pub type Event = Value;

#[derive(Clone, Copy, PartialEq, Eq, Debug)]
pub enum Tier {
    Quick,
    Thorough,
}
impl Tier {
    pub fn parse(s: &str) -> Option<Tier> {
        match s {
            "quick" => Some(Tier::Quick),
            "thorough" => Some(Tier::Thorough),
            _ => None,
        }
    }
    pub fn as_str(&self) -> &'static str {
        match self {
            Tier::Quick => "quick",
            Tier::Thorough => "thorough",
        }
    }
}

#[derive(Clone, Debug)]
pub struct Plan {
    pub config: Value,
    pub events: Vec<Event>,
}
impl Plan {
    pub fn to_json(&self) -> Value {
        json!({"config": self.config, "events": self.events})
    }
    pub fn from_json(v: &Value) -> Option<Plan> {
        Some(Plan {
            config: v.get("config")?.clone(),
            events: v.get("events")?.as_array()?.clone(),
        })
    }
}

#[derive(Clone, Debug, PartialEq, Eq)]
pub struct Violation {
    /// broad class: panic | abort | timeout | mismatch | stale | accept | reject | loop | ...
    pub class: String,
    /// stable key of *what* failed, independent of PRNG values
    pub signature: String,
    pub at_seq: usize,
    pub detail: String,
}
impl Violation {
    pub fn new(class: &str, signature: String, at_seq: usize, detail: String) -> Violation {
        Violation { class: class.to_string(), signature, at_seq, detail }
    }
    pub fn to_json(&self) -> Value {
        json!({"class": self.class, "signature": self.signature, "at_seq": self.at_seq, "detail": self.detail})
    }
    pub fn from_json(v: &Value) -> Option<Violation> {
        Some(Violation {
            class: v.get("class")?.as_str()?.to_string(),
            signature: v.get("signature")?.as_str()?.to_string(),
            at_seq: v.get("at_seq")?.as_u64()? as usize,
            detail: v.get("detail")?.as_str()?.to_string(),
        })
    }
}

pub struct ScenarioInfo {
    pub property: &'static str,
    pub name: &'static str,
    pub rule: &'static str,
    pub abstract_state: &'static str,
    pub real: &'static [&'static str],
    pub stub: &'static [&'static str],
    pub assumptions: &'static [&'static str],
    /// probes that must be non-zero in a thorough run (harness error otherwise)
    pub required_probes: &'static [&'static str],
    pub quick_runs: u64,
    pub thorough_runs: u64,
    /// worker address-space limit in bytes (0 = none)
    pub rlimit_as: u64,
    /// false: a worker abort caused by allocator exhaustion is a `resource` outcome, not a violation
    pub alloc_abort_is_violation: bool,
}

pub trait Scenario {
    fn info(&self) -> ScenarioInfo;
    /// Pure function of the rng: the swarm configuration and the full event list.
    /// `index` is the run index; scenarios may use it for a systematic (enumerated) prefix of the run space.
    fn generate(&self, rng: &mut Rng, tier: Tier, index: u64) -> Plan;
    /// Execute an explicit event list against the real library. Must tolerate arbitrary
    /// (minimised) lists: events whose preconditions do not hold are skipped.
    fn execute(&self, plan: &Plan, ctx: &mut RunCtx);
    /// Simpler variants of one event for argument shrinking (may be empty).
    fn shrink_event(&self, _ev: &Event) -> Vec<Event> {
        vec![]
    }
}

pub struct RunCtx {
    pub digest: Fnv,
    pub fp: Fnv,
    pub nontrivial: bool,
    pub events_executed: u64,
    pub events_skipped: u64,
    pub faults: BTreeMap<String, u64>,
    pub probes: BTreeMap<String, u64>,
    pub abstract_states: BTreeSet<u64>,
    pub known: BTreeSet<String>,
    pub known_seen: BTreeMap<String, u64>,
    pub violation: Option<Violation>,
    pub trace: Option<Vec<String>>,
    pub crumb: Option<*mut u8>,
    pub seq: usize,
}

pub const CRUMB_SIZE: usize = 4096;

impl RunCtx {
    pub fn new(known: &BTreeSet<String>, trace: bool, crumb: Option<*mut u8>) -> RunCtx {
        RunCtx {
            digest: Fnv::new(),
            fp: Fnv::new(),
            nontrivial: false,
            events_executed: 0,
            events_skipped: 0,
            faults: BTreeMap::new(),
            probes: BTreeMap::new(),
            abstract_states: BTreeSet::new(),
            known: known.clone(),
            known_seen: BTreeMap::new(),
            violation: None,
            trace: if trace { Some(vec![]) } else { None },
            crumb,
            seq: 0,
        }
    }
    /// Start of one executed event. `kind` and `arg_class` feed the schedule fingerprint.
    pub fn event(&mut self, seq: usize, kind: &str, arg_class: &str) {
        self.seq = seq;
        self.events_executed += 1;
        self.fp.str(kind);
        self.fp.str(arg_class);
        self.digest.u64(seq as u64);
        self.digest.str(kind);
    }
    pub fn skip(&mut self) {
        self.events_skipped += 1;
    }
    pub fn observe(&mut self, data: &[u8]) {
        self.digest.bytes(data);
    }
    pub fn observe_str(&mut self, s: &str) {
        self.digest.str(s);
    }
    pub fn fault(&mut self, kind: &str) {
        *self.faults.entry(kind.to_string()).or_insert(0) += 1;
        self.fp.str(kind);
        self.nontrivial = true;
    }
    pub fn probe(&mut self, name: &str) {
        *self.probes.entry(name.to_string()).or_insert(0) += 1;
    }
    pub fn probe_n(&mut self, name: &str, n: u64) {
        *self.probes.entry(name.to_string()).or_insert(0) += n;
    }
    pub fn state(&mut self, parts: &[u64]) {
        let mut h = Fnv::new();
        for p in parts {
            h.u64(*p);
        }
        self.abstract_states.insert(h.0);
    }
    pub fn tracing(&self) -> bool {
        self.trace.is_some()
    }
    pub fn trace(&mut self, f: impl FnOnce() -> String) {
        if let Some(t) = self.trace.as_mut() {
            t.push(f());
        }
    }
    /// Breadcrumb readable by the parent after this process died: what were we about to call.
    pub fn crumb(&mut self, label: &str) {
        if let Some(p) = self.crumb {
            let b = label.as_bytes();
            let n = b.len().min(CRUMB_SIZE - 32);
            unsafe {
                std::ptr::copy_nonoverlapping((self.seq as u64).to_le_bytes().as_ptr(), p.add(8), 8);
                std::ptr::copy_nonoverlapping((n as u16).to_le_bytes().as_ptr(), p.add(16), 2);
                std::ptr::copy_nonoverlapping(b.as_ptr(), p.add(18), n);
            }
        }
    }
    pub fn crumb_run(&mut self, run: u64) {
        if let Some(p) = self.crumb {
            unsafe {
                std::ptr::copy_nonoverlapping(run.to_le_bytes().as_ptr(), p, 8);
                std::ptr::copy_nonoverlapping(0u64.to_le_bytes().as_ptr(), p.add(8), 8);
                std::ptr::copy_nonoverlapping(0u16.to_le_bytes().as_ptr(), p.add(16), 2);
            }
        }
    }
    /// Report a violation. Returns true when the run must stop (first unknown violation).
    /// Known signatures are counted and execution continues so they cannot mask others.
    pub fn violate(&mut self, class: &str, signature: String, detail: String) -> bool {
        if self.known.contains(&signature) {
            *self.known_seen.entry(signature).or_insert(0) += 1;
            return false;
        }
        if self.violation.is_none() {
            self.digest.str(&signature);
            self.violation = Some(Violation::new(class, signature, self.seq, detail));
        }
        true
    }
    pub fn stopped(&self) -> bool {
        self.violation.is_some()
    }
}

// ---------------------------------------------------------------------------------------------
// Panic capture: every library call is wrapped in `guard`, the hook records the site silently.

#[derive(Clone, Debug)]
pub struct PanicInfo {
    pub site: String,
    pub msg: String,
}

thread_local! {
    static LAST_PANIC: RefCell<Option<PanicInfo>> = RefCell::new(None);
}

pub fn install_panic_hook() {
    panic::set_hook(Box::new(|info| {
        let site = match info.location() {
            Some(l) => {
                let f = l.file();
                // keep path relative to the repository / registry crate so signatures are stable
                let short = if let Some(idx) = f.rfind("/src/") {
                    let head = &f[..idx];
                    let crate_dir = head.rsplit('/').next().unwrap_or("");
                    format!("{}{}", crate_dir, &f[idx..])
                } else {
                    f.to_string()
                };
                format!("{}:{}", short, l.line())
            }
            None => "unknown".to_string(),
        };
        let msg = if let Some(s) = info.payload().downcast_ref::<&str>() {
            s.to_string()
        } else if let Some(s) = info.payload().downcast_ref::<String>() {
            s.clone()
        } else {
            "non-string panic".to_string()
        };
        LAST_PANIC.with(|p| *p.borrow_mut() = Some(PanicInfo { site, msg }));
    }));
}

/// Run a library call; a panic that unwinds becomes Err(site, message).
pub fn guard<T>(f: impl FnOnce() -> T) -> Result<T, PanicInfo> {
    match panic::catch_unwind(AssertUnwindSafe(f)) {
        Ok(v) => Ok(v),
        Err(_) => {
            let info = LAST_PANIC.with(|p| p.borrow_mut().take()).unwrap_or(PanicInfo { site: "unknown".into(), msg: "unknown".into() });
            Err(info)
        }
    }
}

/// Line-insensitive site (file only) for signatures that must survive unrelated edits nearby.
pub fn site_file(site: &str) -> String {
    site.rsplit_once(':').map(|(f, _)| f.to_string()).unwrap_or_else(|| site.to_string())
}

// ---------------------------------------------------------------------------------------------
// small JSON helpers

pub fn jstr<'a>(v: &'a Value, k: &str) -> &'a str {
    v.get(k).and_then(|x| x.as_str()).unwrap_or("")
}
pub fn ju64(v: &Value, k: &str) -> u64 {
    v.get(k).and_then(|x| x.as_u64()).unwrap_or(0)
}
pub fn jusize(v: &Value, k: &str) -> usize {
    ju64(v, k) as usize
}
pub fn jbool(v: &Value, k: &str) -> bool {
    v.get(k).and_then(|x| x.as_bool()).unwrap_or(false)
}
pub fn jhex(v: &Value, k: &str) -> Vec<u8> {
    hex::decode(jstr(v, k)).unwrap_or_default()
}
pub fn hx(b: &[u8]) -> String {
    hex::encode(b)
}
/// u64 values above 2^53 are stored as decimal strings to survive JSON round trips exactly.
pub fn ju64s(v: &Value, k: &str) -> u64 {
    match v.get(k) {
        Some(Value::String(s)) => s.parse().unwrap_or(0),
        Some(x) => x.as_u64().unwrap_or(0),
        None => 0,
    }
}
pub fn u64s(x: u64) -> Value {
    Value::String(x.to_string())
}
