//! C09 — scenario `artefact-medium`: decoders must be total and memory-bounded.
//!
//! Producers create valid artefacts with the real encoders, a storage/transport medium damages
//! them (truncation, bit rot, inflated length fields, junk, splices, misdelivery), and the real
//! decoding entry point consumes them inside a worker whose allocator refuses any request that
//! would lift live heap above alpha*len(input)+beta. Panics are caught with their site; an abort
//! (allocator exhaustion, native stack overflow) or a hang kills the worker and is attributed
//! to the run and decoder by the parent through the breadcrumb.

use crate::core::*;
use crate::faults;
use crate::rng::Rng;
use crate::scen_digest::ref_hash;
use crate::scen_txhist::{varint, MIn, MOut, Model};
use bsv::*;
use serde_json::{json, Value};

pub struct ArtefactMedium;

pub const ALPHA: usize = 1024;
pub const BETA: usize = 8 << 20;
/// CBOR decoders: serde pre-allocates min(declared, 1 MiB / size_of::<T>()) per sequence and ciborium
/// recurses at most 256 levels, so a constant of 256 x 1 MiB is reachable from nested heads without
/// being proportional to any declared length.
pub const BETA_CBOR: usize = 320 << 20;
/// base58 decoding is quadratic in the input length; the property does not bound time, so inputs to
/// base58 decoders are capped to keep every call far below the hang watchdog.
pub const BASE58_CAP: usize = 8 << 10;

fn is_base58_kind(k: &str) -> bool {
    matches!(k, "wif" | "xprv" | "xpub" | "address" | "json_address")
}

pub const KINDS: &[&str] = &[
    "tx_bytes", "tx_hex", "txin_hex", "txout_hex", "txin_cbor", "txin_cbor_hex", "tx_cbor", "tx_cbor_hex", "tx_json", "outpoint", "script_bytes", "script_hex", "script_asm", "script_chunks",
    "template_asm", "wif", "privkey_hex", "privkey_bytes", "pubkey_hex", "pubkey_bytes", "xprv", "xpub", "xprv_path", "xpub_path", "xprv_seed", "address", "pubkey_hash", "sig_der", "sig_der_hex",
    "sig_compact", "sighash_sig", "ecies_with_key", "ecies_no_key", "aes128cbc_key", "aes128cbc_iv", "aes128cbc_ct", "aes256cbc_key", "aes256cbc_ct", "aes128ctr_key", "aes128ctr_iv", "aes256ctr_key",
    "aes256ctr_iv", "aes_ctr_ct", "digest_verify", "digest_sign", "digest_recover", "json_txin", "json_txout", "json_script", "json_pubkey", "json_address", "bsm_sig_compact", "sighash_flag", "pubkey_decompress", "pubkey_hex_compress", "json_hash", "json_kdf", "mnemonic", "template_match",
    "json_interpreter", "json_state", "json_scriptbit", "json_opcode", "json_sighash", "json_chainparams", "script_coinbase_bytes", "xpub_seed",
];

fn is_text_kind(k: &str) -> bool {
    matches!(
        k,
        "tx_hex" | "txin_hex" | "txout_hex" | "txin_cbor_hex" | "tx_cbor_hex" | "tx_json" | "script_hex" | "script_asm" | "template_asm" | "wif" | "privkey_hex" | "pubkey_hex" | "xprv" | "xpub" | "xprv_path" | "xpub_path" | "address" | "sig_der_hex" | "json_txin" | "json_txout" | "json_script" | "json_pubkey" | "json_address" | "pubkey_hex_compress" | "json_hash" | "json_kdf" | "template_match" | "json_interpreter" | "json_state" | "json_scriptbit" | "json_opcode" | "json_sighash" | "json_chainparams"
    )
}

/// text kinds whose text is the hex of a binary artefact (binary-level faults stay parseable hex)
fn hex_of_binary(k: &str) -> bool {
    matches!(k, "tx_hex" | "txin_hex" | "txout_hex" | "txin_cbor_hex" | "tx_cbor_hex" | "script_hex" | "privkey_hex" | "pubkey_hex" | "sig_der_hex" | "pubkey_hex_compress")
}

const PRIV1: &str = "7f3b2a190817161514131211100f0e0d0c0b0a090807060504030201a1b2c3d4";
const PRIV2: &str = "0000000000000000000000000000000000000000000000000000000000000002";

/// Decode `input` with the real entry point for `kind`. Returns "ok" / "err".
fn consume(kind: &str, input: &[u8]) -> &'static str {
    fn r<T, E>(x: Result<T, E>) -> &'static str {
        if x.is_ok() {
            "ok"
        } else {
            "err"
        }
    }
    let text = || String::from_utf8_lossy(input).to_string();
    let k1 = PrivateKey::from_hex(PRIV1).unwrap();
    let k2 = PrivateKey::from_hex(PRIV2).unwrap();
    match kind {
        "tx_bytes" => r(Transaction::from_bytes(input)),
        "tx_hex" => r(Transaction::from_hex(&text())),
        "txin_hex" => r(TxIn::from_hex(&text())),
        "txout_hex" => r(TxOut::from_hex(&text())),
        "txin_cbor" => r(TxIn::from_compact_bytes(input)),
        "txin_cbor_hex" => r(TxIn::from_compact_hex(&text())),
        "tx_cbor" => r(Transaction::from_compact_bytes(input)),
        "tx_cbor_hex" => r(Transaction::from_compact_hex(&text())),
        "tx_json" => r(Transaction::from_json_string(&text())),
        "outpoint" => r(TxIn::from_outpoint_bytes(input)),
        "script_bytes" => r(Script::from_bytes(input)),
        "script_hex" => r(Script::from_hex(&text())),
        "script_asm" => r(Script::from_asm_string(&text())),
        "script_chunks" => {
            let chunks: Vec<Vec<u8>> = input.chunks(7).map(|c| c.to_vec()).collect();
            r(Script::from_chunks(chunks))
        }
        "template_asm" => r(ScriptTemplate::from_asm_string(&text())),
        "wif" => r(PrivateKey::from_wif(&text())),
        "privkey_hex" => r(PrivateKey::from_hex(&text())),
        "privkey_bytes" => r(PrivateKey::from_bytes(input)),
        "pubkey_hex" => r(PublicKey::from_hex(&text())),
        "pubkey_bytes" => r(PublicKey::from_bytes(input)),
        "pubkey_decompress" => r(PublicKey::from_bytes(input).and_then(|p| p.to_decompressed())),
        "pubkey_hex_compress" => r(PublicKey::from_hex(&text()).and_then(|p| p.to_compressed()).and_then(|p| p.to_p2pkh_address())),
        "xprv" => r(ExtendedPrivateKey::from_string(&text())),
        "xpub" => r(ExtendedPublicKey::from_string(&text())),
        "xprv_path" => r(ExtendedPrivateKey::from_seed(&[7u8; 32]).and_then(|x| x.derive_from_path(&text()))),
        "xpub_path" => r(ExtendedPublicKey::from_seed(&[7u8; 32]).and_then(|x| x.derive_from_path(&text()))),
        "xprv_seed" => r(ExtendedPrivateKey::from_seed(input)),
        "xpub_seed" => r(ExtendedPublicKey::from_seed(input)),
        "script_coinbase_bytes" => r(Script::from_coinbase_bytes(input)),
        "address" => r(P2PKHAddress::from_string(&text())),
        "pubkey_hash" => r(P2PKHAddress::from_pubkey_hash(input)),
        "sig_der" => r(Signature::from_der(input)),
        "sig_der_hex" => r(Signature::from_hex_der(&text())),
        "sig_compact" => r(Signature::from_compact_bytes(input)),
        "sighash_sig" => r(SighashSignature::from_bytes(input, b"preimage")),
        "ecies_with_key" => r(ECIESCiphertext::from_bytes(input, true).and_then(|ct| {
            let sender = ct.extract_public_key()?;
            ECIES::decrypt(&ct, &k2, &sender)
        })),
        "ecies_no_key" => r(ECIESCiphertext::from_bytes(input, false).and_then(|ct| ECIES::decrypt(&ct, &k2, &k1.to_public_key()?))),
        "aes128cbc_key" => r(AES::decrypt(input, &[1u8; 16], &[2u8; 32], AESAlgorithms::AES128_CBC)),
        "aes128cbc_iv" => r(AES::decrypt(&[1u8; 16], input, &[2u8; 32], AESAlgorithms::AES128_CBC)),
        "aes128cbc_ct" => r(AES::decrypt(&[1u8; 16], &[3u8; 16], input, AESAlgorithms::AES128_CBC)),
        "aes256cbc_key" => r(AES::decrypt(input, &[1u8; 16], &[2u8; 32], AESAlgorithms::AES256_CBC)),
        "aes256cbc_ct" => r(AES::decrypt(&[1u8; 32], &[3u8; 16], input, AESAlgorithms::AES256_CBC)),
        "aes128ctr_key" => r(AES::decrypt(input, &[1u8; 16], &[2u8; 33], AESAlgorithms::AES128_CTR)),
        "aes128ctr_iv" => r(AES::encrypt(&[1u8; 16], input, &[2u8; 33], AESAlgorithms::AES128_CTR)),
        "aes256ctr_key" => r(AES::encrypt(input, &[1u8; 16], &[2u8; 33], AESAlgorithms::AES256_CTR)),
        "aes256ctr_iv" => r(AES::decrypt(&[1u8; 32], input, &[2u8; 33], AESAlgorithms::AES256_CTR)),
        "aes_ctr_ct" => r(AES::decrypt(&[1u8; 32], &[5u8; 16], input, AESAlgorithms::AES256_CTR)),
        "digest_verify" => {
            let sig = k1.sign_message(b"m").unwrap();
            r(ECDSA::verify_hashbuf(input, &k1.to_public_key().unwrap(), &sig))
        }
        "digest_sign" => r(ECDSA::sign_digest_with_deterministic_k(&k1, input)),
        "digest_recover" => {
            let sig = k1.sign_message(b"m").unwrap();
            r(sig.recover_public_key_from_digest(input))
        }
        "json_txin" => r(serde_json::from_str::<TxIn>(&text())),
        "json_txout" => r(serde_json::from_str::<TxOut>(&text())),
        "json_script" => r(serde_json::from_str::<Script>(&text())),
        "json_pubkey" => r(serde_json::from_str::<PublicKey>(&text())),
        "json_address" => r(serde_json::from_str::<P2PKHAddress>(&text())),
        "bsm_sig_compact" => r(Signature::from_compact_bytes(input).and_then(|s| BSM::verify_message(b"hello", &s, &P2PKHAddress::from_pubkey(&k1.to_public_key()?)?))),
        "sighash_flag" => r(SigHash::try_from(*input.first().unwrap_or(&0))),
        "json_hash" => r(serde_json::from_str::<Hash>(&text())),
        "json_kdf" => r(serde_json::from_str::<KDF>(&text())),
        // every public type that derives Deserialize is a decoder too (decode only: what a decoded interpreter does when it is
        // driven is C16's subject and is exercised there through faithful restarts)
        "json_interpreter" => r(serde_json::from_str::<Interpreter>(&text())),
        "json_state" => r(serde_json::from_str::<State>(&text())),
        "json_scriptbit" => r(serde_json::from_str::<ScriptBit>(&text())),
        "json_opcode" => r(serde_json::from_str::<OpCodes>(&text())),
        "json_sighash" => r(serde_json::from_str::<SigHash>(&text())),
        "json_chainparams" => r(serde_json::from_str::<ChainParams>(&text())),
        "mnemonic" => r(ExtendedPrivateKey::from_mnemonic(input, if input.len() % 2 == 0 { None } else { Some(input.iter().rev().cloned().collect()) })),
        "template_match" => r(ScriptTemplate::from_asm_string(&text()).map(|t| {
            // a decoded template is used for matching: against a standard script, an empty one and one of its own length
            let p2pkh = Script::from_asm_string("OP_DUP OP_HASH160 0011223344556677889900112233445566778899 OP_EQUALVERIFY OP_CHECKSIG").unwrap();
            let _ = p2pkh.is_match(&t);
            let _ = Script::default().is_match(&t);
            let _ = p2pkh.matches(&t).is_ok();
        })),
        _ => "err",
    }
}

impl ArtefactMedium {
    fn gen_script_bytes(rng: &mut Rng, dense: bool) -> Vec<u8> {
        let mut b = vec![];
        let n = if dense { rng.range(100, 3000) } else { rng.range(0, 12) };
        for _ in 0..n {
            match rng.below(if dense { 3 } else { 10 }) {
                0 | 1 => b.push(*rng.pick(&[0x51u8, 0x76, 0xa9, 0x88, 0xac, 0x00, 0x6a, 0xab, 0x93, 0x87])),
                2 => {
                    b.extend([0x63, 0x51, 0x67, 0x52, 0x68]);
                }
                3 => {
                    let l = rng.range(1, 75) as usize;
                    b.push(l as u8);
                    b.extend(rng.bytes(l));
                }
                4 => {
                    let l = rng.range(76, 255) as usize;
                    b.extend([0x4c, l as u8]);
                    b.extend(rng.bytes(l));
                }
                5 => {
                    let l = rng.range(256, 600) as usize;
                    b.push(0x4d);
                    b.extend((l as u16).to_le_bytes());
                    b.extend(rng.bytes(l));
                }
                6 => {
                    let l = rng.range(0, 40) as usize;
                    b.push(0x4e);
                    b.extend((l as u32).to_le_bytes());
                    b.extend(rng.bytes(l));
                }
                7 => {
                    let mut v = vec![0x76, 0xa9, 0x14];
                    v.extend(rng.bytes(20));
                    v.extend([0x88, 0xac]);
                    b.extend(v);
                }
                _ => b.push(rng.range(0x4f, 0xb9) as u8),
            }
        }
        b
    }

    fn deep_script(n: usize) -> Vec<u8> {
        let mut v = vec![0x63u8; n];
        v.extend(vec![0x68u8; n]);
        v
    }

    fn gen_model(rng: &mut Rng) -> Model {
        let n_in = rng.range(0, 4) as usize;
        let n_out = rng.range(0, 4) as usize;
        Model {
            version: rng.next() as u32,
            ins: (0..n_in)
                .map(|_| {
                    // coinbase-shaped inputs (null outpoint) take a different path through the reader
                    let coinbase = rng.chance(1, 5);
                    MIn {
                        txid: if coinbase { vec![0u8; 32] } else { rng.bytes(32) },
                        vout: if coinbase { 0xffff_ffff } else { rng.next() as u32 },
                        script: if rng.chance(1, 2) { vec![] } else { Self::gen_script_bytes(rng, false) },
                        seq: rng.next() as u32,
                    }
                })
                .collect(),
            outs: (0..n_out).map(|_| MOut { value: rng.next(), script: Self::gen_script_bytes(rng, false) }).collect(),
            locktime: rng.next() as u32,
        }
    }

    /// offsets of compact-size fields in a serialised model (for targeted inflation)
    fn length_offsets(m: &Model) -> Vec<usize> {
        let mut offs = vec![4];
        let mut p = 4 + varint(m.ins.len() as u64).len();
        for i in &m.ins {
            p += 36;
            offs.push(p);
            p += varint(i.script.len() as u64).len() + i.script.len() + 4;
        }
        offs.push(p);
        p += varint(m.outs.len() as u64).len();
        for o in &m.outs {
            p += 8;
            offs.push(p);
            p += varint(o.script.len() as u64).len() + o.script.len();
        }
        offs
    }

    /// offsets and head lengths of every byte-string / text / array / map head in a CBOR document
    fn cbor_heads(b: &[u8]) -> Vec<(usize, usize)> {
        let mut out = vec![];
        let mut p = 0;
        while p < b.len() {
            let ib = b[p];
            let major = ib >> 5;
            let ai = ib & 0x1f;
            let (head, val): (usize, u64) = match ai {
                0..=23 => (1, ai as u64),
                24 => (2, *b.get(p + 1).unwrap_or(&0) as u64),
                25 => (3, u16::from_be_bytes([*b.get(p + 1).unwrap_or(&0), *b.get(p + 2).unwrap_or(&0)]) as u64),
                26 => (5, 0),
                27 => (9, 0),
                _ => (1, 0),
            };
            match major {
                2 | 3 => {
                    out.push((p, head));
                    p += head + val as usize;
                }
                4 | 5 => {
                    out.push((p, head));
                    p += head;
                }
                _ => p += head,
            }
        }
        out
    }

    /// A valid artefact for `kind`, plus offsets of known length fields inside its binary form.
    fn produce(rng: &mut Rng, kind: &str, deep: usize) -> (Vec<u8>, Vec<usize>) {
        if deep > 0 {
            // a *valid* artefact whose script nests `deep` conditionals (recursion probe)
            let ds = Self::deep_script(deep);
            match kind {
                "script_bytes" | "script_hex" | "script_chunks" => return (ds, vec![]),
                "script_asm" => {
                    let mut t = vec!["OP_IF"; deep];
                    t.extend(vec!["OP_ENDIF"; deep]);
                    return (t.join(" ").into_bytes(), vec![]);
                }
                "tx_bytes" | "tx_hex" => {
                    let m = Model { version: 1, ins: vec![MIn { txid: vec![7; 32], vout: 0, script: vec![], seq: 0 }], outs: vec![MOut { value: 1, script: ds }], locktime: 0 };
                    return (m.serialise(), vec![]);
                }
                "txout_hex" => {
                    let mut b = vec![0u8; 8];
                    b.extend(varint(ds.len() as u64));
                    b.extend(ds);
                    return (b, vec![]);
                }
                "txin_hex" => {
                    let mut b = vec![9u8; 36];
                    b.extend(varint(ds.len() as u64));
                    b.extend(ds);
                    b.extend([0u8; 4]);
                    return (b, vec![]);
                }
                _ => {}
            }
        }
        let k1 = PrivateKey::from_hex(PRIV1).unwrap();
        let k2 = PrivateKey::from_hex(PRIV2).unwrap();
        let rand_key = |rng: &mut Rng| -> PrivateKey {
            let mut b = rng.bytes(32);
            b[0] &= 0x7f;
            b[31] |= 1;
            PrivateKey::from_bytes(&b).unwrap().compress_public_key(rng.chance(1, 2))
        };
        match kind {
            "tx_bytes" | "tx_hex" | "tx_cbor" | "tx_cbor_hex" | "tx_json" => {
                let m = Self::gen_model(rng);
                let bytes = m.serialise();
                let offs = Self::length_offsets(&m);
                match kind {
                    "tx_bytes" | "tx_hex" => (bytes, offs),
                    _ => {
                        let mut tx = match Transaction::from_bytes(&bytes) {
                            Ok(t) => t,
                            Err(_) => return (bytes, vec![]),
                        };
                        // extended fields on some inputs
                        for i in 0..tx.get_ninputs() {
                            if rng.chance(1, 2) {
                                if let Some(mut ti) = tx.get_input(i) {
                                    ti.set_satoshis(rng.next());
                                    if let Ok(s) = Script::from_bytes(&Self::gen_script_bytes(rng, false)) {
                                        ti.set_locking_script(&s);
                                    }
                                    tx.set_input(i, &ti);
                                }
                            }
                        }
                        match kind {
                            "tx_json" => (tx.to_json_string().unwrap_or_default().into_bytes(), vec![]),
                            _ => (tx.to_compact_bytes().unwrap_or_default(), vec![]),
                        }
                    }
                }
            }
            "txin_hex" | "txin_cbor" | "txin_cbor_hex" | "json_txin" => {
                let script = Self::gen_script_bytes(rng, false);
                let mut b = rng.bytes(36);
                if rng.chance(1, 4) {
                    b = vec![0u8; 32];
                    b.extend([0xff; 4]);
                }
                let off = b.len();
                b.extend(varint(script.len() as u64));
                b.extend(&script);
                b.extend(rng.bytes(4));
                if kind == "txin_hex" {
                    return (b, vec![off]);
                }
                let ti = match TxIn::from_hex(&hx(&b)) {
                    Ok(t) => t,
                    Err(_) => return (b, vec![]),
                };
                if kind == "json_txin" {
                    (ti.to_json_string().unwrap_or_default().into_bytes(), vec![])
                } else {
                    (ti.to_compact_bytes().unwrap_or_default(), vec![])
                }
            }
            "txout_hex" | "json_txout" => {
                let script = Self::gen_script_bytes(rng, false);
                let mut b = rng.bytes(8);
                b.extend(varint(script.len() as u64));
                b.extend(&script);
                if kind == "txout_hex" {
                    return (b, vec![8]);
                }
                match TxOut::from_hex(&hx(&b)) {
                    Ok(t) => (t.to_json_string().unwrap_or_default().into_bytes(), vec![]),
                    Err(_) => (b, vec![]),
                }
            }
            "outpoint" => (rng.bytes(36), vec![]),
            "script_bytes" | "script_hex" | "script_chunks" => {
                let dense = rng.chance(1, 12);
                let b = Self::gen_script_bytes(rng, dense);
                // offsets of push-length bytes: re-scan
                let mut offs = vec![];
                let mut p = 0;
                while p < b.len() {
                    let op = b[p];
                    match op {
                        1..=75 => {
                            offs.push(p);
                            p += 1 + op as usize;
                        }
                        0x4c => {
                            offs.push(p);
                            p += 2 + *b.get(p + 1).unwrap_or(&0) as usize;
                        }
                        0x4d => {
                            offs.push(p);
                            let l = u16::from_le_bytes([*b.get(p + 1).unwrap_or(&0), *b.get(p + 2).unwrap_or(&0)]) as usize;
                            p += 3 + l;
                        }
                        0x4e => {
                            offs.push(p);
                            let l = u32::from_le_bytes([*b.get(p + 1).unwrap_or(&0), *b.get(p + 2).unwrap_or(&0), *b.get(p + 3).unwrap_or(&0), *b.get(p + 4).unwrap_or(&0)]) as usize;
                            p += 5 + l;
                        }
                        _ => p += 1,
                    }
                }
                (b, offs)
            }
            "script_asm" | "template_asm" if rng.chance(1, 25) => {
                // a bare hex data token whose length sits on a push-opcode boundary (75 / 76, 255 / 256, 65 535 / 65 536 bytes):
                // the text decoders choose the push opcode from the token's length
                let n = *rng.pick(&[75usize, 76, 255, 256, 65_535, 65_536, 65_536, 65_537]);
                let tok = hx(&rng.bytes(n));
                let text = match rng.below(3) {
                    0 => tok,
                    1 => format!("OP_1 {} OP_DROP", tok),
                    _ => format!("{} OP_SIZE", tok),
                };
                (text.into_bytes(), vec![])
            }
            "script_asm" | "json_script" => {
                let b = Self::gen_script_bytes(rng, false);
                match Script::from_bytes(&b) {
                    Ok(s) => {
                        if kind == "script_asm" {
                            (if rng.chance(1, 2) { s.to_asm_string() } else { s.to_extended_asm_string() }.into_bytes(), vec![])
                        } else {
                            (serde_json::to_string(&s).unwrap_or_default().into_bytes(), vec![])
                        }
                    }
                    Err(_) => (b"OP_DUP OP_HASH160 0011223344556677889900112233445566778899 OP_EQUALVERIFY OP_CHECKSIG".to_vec(), vec![]),
                }
            }
            "template_asm" => {
                let opts = ["OP_DUP OP_HASH160 OP_PUBKEYHASH OP_EQUALVERIFY OP_CHECKSIG", "OP_SIG OP_PUBKEY", "OP_RETURN OP_DATA", "OP_DATA=20 OP_DATA>=1 OP_DATA<=75 OP_DATA>3 OP_DATA<9", "0 1 16 17 OP_0", "OP_HASH160 0011223344 OP_EQUAL"];
                (rng.pick(&opts).as_bytes().to_vec(), vec![])
            }
            "wif" if rng.chance(1, 4) => {
                // correctly checksummed base58check payloads of the wrong shape (addresses, short or unusable keys)
                let mut p: Vec<u8> = vec![*rng.pick(&[0x80u8, 0x00, 0xef])];
                let n = *rng.pick(&[0usize, 1, 20, 31, 32, 33, 34, 40]);
                p.extend(match rng.below(3) {
                    0 => vec![0u8; n],
                    1 => vec![0xff; n],
                    _ => rng.bytes(n),
                });
                let check = ref_hash("sha256d", &p);
                p.extend_from_slice(&check[..4]);
                (bs58::encode(p).into_string().into_bytes(), vec![])
            }
            "address" | "json_address" | "wif" | "xprv" | "xpub" if rng.chance(1, 5) => {
                // Base58Check with a CORRECT checksum over a payload of the wrong size (from nothing at all to one byte more
                // than the format has): passes the checksum test and reaches whatever slices the payload afterwards
                let full = match kind {
                    "wif" => 34usize,
                    "xprv" | "xpub" => 78,
                    _ => 21,
                };
                let l = *rng.pick(&[0usize, 0, 1, 2, 3, 4, 5, full - 1, full, full + 1, full / 2]);
                let mut payload = rng.bytes(l);
                if l > 0 && rng.chance(1, 2) {
                    payload[0] = match kind {
                        "wif" => 0x80,
                        "xprv" | "xpub" => 0x04,
                        _ => 0x00,
                    };
                }
                let ck = crate::scen_digest::ref_hash("sha256d", &payload);
                payload.extend_from_slice(&ck[..4]);
                let text = bs58::encode(&payload).into_string();
                if kind == "json_address" {
                    (serde_json::to_string(&text).unwrap_or_default().into_bytes(), vec![])
                } else {
                    (text.into_bytes(), vec![])
                }
            }
            "wif" => (rand_key(rng).to_wif().unwrap_or_default().into_bytes(), vec![]),
            "privkey_hex" | "privkey_bytes" => (rand_key(rng).to_bytes(), vec![]),
            "pubkey_hex" | "pubkey_bytes" | "json_pubkey" | "pubkey_decompress" | "pubkey_hex_compress" => {
                let pk = rand_key(rng).to_public_key().unwrap();
                if kind == "json_pubkey" {
                    (serde_json::to_string(&pk).unwrap_or_default().into_bytes(), vec![])
                } else {
                    (pk.to_bytes().unwrap_or_default(), vec![])
                }
            }
            "xprv" | "xpub" if rng.chance(1, 3) => {
                // structurally well-formed extended key whose key material is unusable (zero, group order, all ones,
                // off-curve point), with a full / partial / missing checksum: drives the decoders' error paths
                let mut p: Vec<u8> = if kind == "xprv" { vec![0x04, 0x88, 0xad, 0xe4] } else { vec![0x04, 0x88, 0xb2, 0x1e] };
                p.push(rng.below(256) as u8);
                p.extend(rng.bytes(4));
                p.extend(rng.bytes(4));
                p.extend(rng.bytes(32));
                let bad: Vec<u8> = match rng.below(5) {
                    0 => vec![0u8; 32],
                    1 => hex::decode("fffffffffffffffffffffffffffffffebaaedce6af48a03bbfd25e8cd0364141").unwrap(),
                    2 => vec![0xff; 32],
                    3 => {
                        let mut b = rng.bytes(32);
                        b[0] &= 0x7f;
                        b
                    }
                    _ => hex::decode("fffffffffffffffffffffffffffffffebaaedce6af48a03bbfd25e8cd0364140").unwrap(),
                };
                if kind == "xprv" {
                    p.push(0);
                    p.extend(bad);
                } else {
                    p.push(*rng.pick(&[0x02u8, 0x03, 0x04, 0x00]));
                    p.extend(bad);
                }
                let check = ref_hash("sha256d", &p);
                let n_check = *rng.pick(&[4usize, 4, 3, 1, 0]);
                p.extend_from_slice(&check[..n_check]);
                if rng.chance(1, 4) {
                    let cut = rng.range(70, p.len() as u64) as usize;
                    p.truncate(cut);
                }
                (bs58::encode(p).into_string().into_bytes(), vec![])
            }
            "xprv" => {
                let x = ExtendedPrivateKey::from_seed(&rng.bytes(32)).unwrap();
                (x.to_string().unwrap_or_default().into_bytes(), vec![])
            }
            "xpub" => {
                let x = ExtendedPublicKey::from_seed(&rng.bytes(32)).unwrap();
                (x.to_string().unwrap_or_default().into_bytes(), vec![])
            }
            "xprv_path" | "xpub_path" => {
                let hard = kind == "xprv_path";
                let n = rng.range(1, 4);
                let mut s = String::from("m");
                for _ in 0..n {
                    s.push('/');
                    s.push_str(&format!("{}", match rng.below(8) {
                        0 => 0u64,
                        1 => 0x7fff_ffff,
                        2 => 0x8000_0000,
                        3 => 0xffff_ffff,
                        4 => 0x1_0000_0000,
                        _ => rng.below(1000),
                    }));
                    if hard && rng.chance(1, 3) {
                        s.push(*rng.pick(&['\'', 'h', 'H']));
                    }
                }
                (s.into_bytes(), vec![])
            }
            "xprv_seed" | "xpub_seed" => {
                let n = *rng.pick(&[16usize, 32, 64, 1, 0, 100]);
                (rng.bytes(n), vec![])
            }
            "script_coinbase_bytes" => {
                // block height push + arbitrary miner bytes, as the first input of a coinbase transaction carries them
                let n = rng.range(0, 100) as usize;
                let mut b = vec![0x03, rng.below(256) as u8, rng.below(256) as u8, rng.below(16) as u8];
                b.extend(rng.bytes(n));
                (b, vec![0])
            }
            "address" | "json_address" => {
                let a = P2PKHAddress::from_pubkey(&rand_key(rng).to_public_key().unwrap()).unwrap();
                if kind == "json_address" {
                    (serde_json::to_string(&a).unwrap_or_default().into_bytes(), vec![])
                } else {
                    (a.to_string().unwrap_or_default().into_bytes(), vec![])
                }
            }
            "pubkey_hash" => (rng.bytes(20), vec![]),
            "sig_der" | "sig_der_hex" | "sighash_sig" if rng.chance(1, 6) => {
                // TLV boundary shapes: the outer length and the first integer's length are placed so that the first integer
                // ends at / just before / just past the end of the buffer, and the last byte is a tag or a flag value
                let l = rng.range(8, 74) as usize;
                let mut d = rng.bytes(l);
                d[0] = 0x30;
                d[1] = (l as i64 - 2 - rng.range(0, 2) as i64 + if rng.chance(1, 5) { 1 } else { 0 }).clamp(0, 255) as u8;
                d[2] = 0x02;
                d[3] = (l as i64 - 5 + rng.range(0, 4) as i64 - 2).clamp(0, 255) as u8;
                d[l - 1] = *rng.pick(&[0x02u8, 0x30, 0x00, 0x01, 0x41, 0x02]);
                (d, vec![1, 3])
            }
            "sig_der" | "sig_der_hex" | "sighash_sig" if rng.chance(1, 4) => {
                // hand-made DER: integer length bytes 0 / 1 / 0x20 / 0x21 / 0x22 with matching or mismatching content,
                // leading zeros, high bits, wrong outer length
                let int = |rng: &mut Rng| -> Vec<u8> {
                    let l = *rng.pick(&[0usize, 1, 0x20, 0x21, 0x21, 0x22]);
                    let mut c = rng.bytes(l);
                    if l > 0 && rng.chance(1, 2) {
                        c[0] = *rng.pick(&[0x00u8, 0x80, 0x7f, 0xff]);
                    }
                    let declared = if rng.chance(1, 6) { *rng.pick(&[0usize, 0x21, 0x7f, 0x80, 0xff]) } else { l };
                    let mut v = vec![0x02, declared as u8];
                    v.extend(c);
                    v
                };
                let mut body = int(rng);
                body.extend(int(rng));
                let outer = if rng.chance(1, 6) { *rng.pick(&[0usize, 0x80, 0x81, 0xff, body.len() + 1]) } else { body.len() };
                let mut d = vec![0x30, outer as u8];
                d.extend(body);
                if kind == "sighash_sig" {
                    d.push(*rng.pick(&crate::scen_txhist::FLAGS));
                }
                (d, vec![1, 3])
            }
            "sig_der" | "sig_der_hex" | "sig_compact" | "sighash_sig" | "bsm_sig_compact" => {
                let msg = rng.bytes(20);
                let key = rand_key(rng);
                match kind {
                    "sig_compact" => (key.sign_message(&msg).unwrap().to_compact_bytes(None), vec![]),
                    "bsm_sig_compact" => (BSM::sign_message(&k1, b"hello").unwrap().to_compact_bytes(None), vec![]),
                    "sighash_sig" => {
                        let mut d = key.sign_message(&msg).unwrap().to_der_bytes();
                        d.push(*rng.pick(&crate::scen_txhist::FLAGS));
                        (d, vec![1, 3])
                    }
                    _ => (key.sign_message(&msg).unwrap().to_der_bytes(), vec![1, 3]),
                }
            }
            "ecies_with_key" => {
                let n = *rng.pick(&[0usize, 1, 15, 16, 17, 100, 1000]);
                let ct = ECIES::encrypt(&rng.bytes(n), &k1, &k2.to_public_key().unwrap(), false).unwrap();
                (ct.to_bytes(), vec![])
            }
            "ecies_no_key" => {
                let n = *rng.pick(&[0usize, 1, 15, 16, 17, 100, 1000]);
                let ct = ECIES::encrypt(&rng.bytes(n), &k1, &k2.to_public_key().unwrap(), true).unwrap();
                (ct.to_bytes(), vec![])
            }
            "aes128cbc_key" | "aes128cbc_iv" | "aes128ctr_key" | "aes128ctr_iv" | "aes256ctr_iv" => (rng.bytes(16), vec![]),
            "aes256cbc_key" | "aes256ctr_key" => (rng.bytes(32), vec![]),
            "aes128cbc_ct" => (AES::encrypt(&[1u8; 16], &[3u8; 16], &rng.bytes(40), AESAlgorithms::AES128_CBC).unwrap_or_default(), vec![]),
            "aes256cbc_ct" => (AES::encrypt(&[1u8; 32], &[3u8; 16], &rng.bytes(40), AESAlgorithms::AES256_CBC).unwrap_or_default(), vec![]),
            "aes_ctr_ct" => (rng.bytes(50), vec![]),
            "digest_verify" | "digest_sign" | "digest_recover" => (
                match rng.below(6) {
                    0 => hex::decode("fffffffffffffffffffffffffffffffebaaedce6af48a03bbfd25e8cd0364141").unwrap(),
                    1 => vec![0xff; 32],
                    2 => vec![0u8; 32],
                    3 => hex::decode("fffffffffffffffffffffffffffffffebaaedce6af48a03bbfd25e8cd0364142").unwrap(),
                    _ => rng.bytes(32),
                },
                vec![],
            ),
            "sighash_flag" => (vec![*rng.pick(&crate::scen_txhist::FLAGS)], vec![]),
            "json_hash" => {
                let n = rng.range(0, 40) as usize;
                (serde_json::to_string(&Hash::sha_256(&rng.bytes(n))).unwrap_or_default().into_bytes(), vec![])
            }
            "json_kdf" => {
                let k = KDF::pbkdf2(b"pw", Some(rng.bytes(8)), PBKDF2Hashes::SHA256, 1, 16);
                (serde_json::to_string(&k).unwrap_or_default().into_bytes(), vec![])
            }
            "json_interpreter" | "json_state" => {
                // an interpreter a few steps into a small program, with or without a transaction context
                let asm = *rng.pick(&["OP_1 OP_2 OP_ADD OP_3 OP_EQUAL", "OP_1 OP_IF OP_2 OP_ELSE OP_3 OP_ENDIF OP_TOALTSTACK", "00ff OP_DUP OP_HASH160 OP_SWAP OP_CODESEPARATOR OP_DROP", "OP_0 OP_NOTIF aabbcc OP_ENDIF OP_SIZE"]);
                let script = Script::from_asm_string(asm).unwrap_or_default();
                let mut itp = if rng.chance(1, 2) {
                    let mut tx = Transaction::new(1, 0);
                    let mut txin = TxIn::new(&[7u8; 32], 1, &Script::default(), Some(5));
                    txin.set_locking_script(&script);
                    txin.set_satoshis(1000);
                    tx.add_input(&txin);
                    tx.add_output(&TxOut::new(5, &script));
                    Interpreter::from_transaction(&tx, 0).unwrap_or_else(|_| Interpreter::from_script(&script))
                } else {
                    Interpreter::from_script(&script)
                };
                for _ in 0..rng.below(6) {
                    let _ = itp.next();
                }
                if kind == "json_state" {
                    (serde_json::to_string(&itp.state()).unwrap_or_default().into_bytes(), vec![])
                } else {
                    (serde_json::to_string(&itp).unwrap_or_default().into_bytes(), vec![])
                }
            }
            "json_scriptbit" => {
                let bits = Script::from_asm_string("OP_1 OP_IF aabb OP_ELSE OP_2 OP_ENDIF OP_CHECKSIG").map(|s| s.to_script_bits()).unwrap_or_default();
                let b = if bits.is_empty() { ScriptBit::OpCode(OpCodes::OP_1) } else { bits[rng.usize(bits.len())].clone() };
                (serde_json::to_string(&b).unwrap_or_default().into_bytes(), vec![])
            }
            "json_opcode" => (serde_json::to_string(&*rng.pick(&[OpCodes::OP_0, OpCodes::OP_1, OpCodes::OP_CHECKSIG, OpCodes::OP_PUSHDATA4, OpCodes::OP_IF])).unwrap_or_default().into_bytes(), vec![]),
            "json_sighash" => (serde_json::to_string(&SigHash::try_from(*rng.pick(&crate::scen_txhist::FLAGS)).unwrap_or(SigHash::ALL)).unwrap_or_default().into_bytes(), vec![]),
            "json_chainparams" => (serde_json::to_string(&ChainParams::default()).unwrap_or_default().into_bytes(), vec![]),
            "mnemonic" => {
                let n = *rng.pick(&[0usize, 1, 12, 64, 128, 129, 300]);
                (rng.bytes(n), vec![])
            }
            "template_match" => {
                let opts = ["OP_DUP OP_HASH160 OP_PUBKEYHASH OP_EQUALVERIFY OP_CHECKSIG", "OP_DUP OP_HASH160 OP_DATA=20 OP_EQUALVERIFY OP_CHECKSIG", "OP_SIG OP_PUBKEY OP_DATA OP_DATA>=1 OP_DATA<=75", "OP_DATA>3 OP_DATA<9 OP_DATA=0 0 1 16", "OP_DUP OP_HASH160 0011223344556677889900112233445566778899 OP_EQUALVERIFY OP_CHECKSIG"];
                (rng.pick(&opts).as_bytes().to_vec(), vec![])
            }
            _ => (vec![], vec![]),
        }
    }

    const INFLATE: &'static [&'static str] = &[
        "00", "fc", "fdfd00", "fdffff", "fe00000100", "fe00000080", "feffffffff", "ff0000000001000000", "ff0000000000000080", "ffffffffffffffffff", // compact-size
        "4cff", "4dffff", "4e00000100", "4e00008000", "4effffffff", "4e00000080", // pushdata
        "5affffffff", "5b000000ffffffffff", "5bffffffffffffffff", "7affffffff", "7bffffffffffffffff", "9affffffff", "9bffffffffffffffff", "baffffffff", "bbffffffffffffffff", "9f", "bf", "5f", // CBOR heads
        "5a10000000", "7a10000000", "9a10000000", "ba10000000", "9a02000000", "5a02000000", "9b0000000100000000", "991000", "59ffff", // moderately large CBOR counts (2^28, 2^22, 2^32, 4096, 65535)
        "fe00000010", "fe00000002", // compact-size 2^28, 2^25
        "7f", "ff", "c2", "c3", "d9d9f7", "a1", "a0", "f6", "f7", "fb7ff0000000000000", "3bffffffffffffffff", "c249010000000000000000", // CBOR: indefinite text, break, bignum tags, self-describe tag, maps, null/undefined, +inf, most negative, 2^64 as a bignum
    ];
}

fn apply_fault(data: &mut Vec<u8>, f: &Value) -> bool {
    let name = jstr(f, "f");
    match name {
        "truncate" => {
            let k = jusize(f, "k");
            if k >= data.len() {
                return false;
            }
            data.truncate(k);
            true
        }
        "flip" => {
            let p = jusize(f, "pos");
            if p >= data.len() {
                return false;
            }
            data[p] ^= 1 << (ju64(f, "bit") % 8);
            true
        }
        "set" => {
            let p = jusize(f, "pos");
            if p >= data.len() {
                return false;
            }
            data[p] = ju64(f, "val") as u8;
            true
        }
        "len_to_end" => {
            // a one-byte length field is made to reach exactly to the end of the buffer, or a few bytes short of / past it
            let p = jusize(f, "pos");
            if p >= data.len() {
                return false;
            }
            let v = data.len() as i64 - p as i64 - 1 - ju64(f, "short") as i64 + ju64(f, "past") as i64;
            data[p] = v.clamp(0, 255) as u8;
            true
        }
        "set_last" => {
            match data.last_mut() {
                Some(b) => {
                    *b = ju64(f, "val") as u8;
                    true
                }
                None => false,
            }
        }
        "inflate" => {
            // overwrite the bytes at pos with a length pattern (the field grows or shrinks in place)
            let p = jusize(f, "pos");
            let pat = jhex(f, "pat");
            if p > data.len() {
                return false;
            }
            let replace = jusize(f, "replace").min(data.len() - p);
            data.splice(p..p + replace, pat);
            true
        }
        "extend" => {
            data.extend(jhex(f, "junk"));
            true
        }
        "prepend" => {
            let mut j = jhex(f, "junk");
            j.extend(data.iter());
            *data = j;
            true
        }
        "splice" => {
            let a = jusize(f, "from");
            let n = jusize(f, "n");
            let to = jusize(f, "to");
            if a >= data.len() || to > data.len() || n == 0 {
                return false;
            }
            let chunk: Vec<u8> = data[a..(a + n).min(data.len())].to_vec();
            data.splice(to..to, chunk);
            true
        }
        "dup" => {
            let c = data.clone();
            data.extend(c);
            true
        }
        "text_case" => {
            // hex digits (and everything else) in upper or alternating case
            let alt = ju64(f, "alt") == 1;
            let mut changed = false;
            for (i, b) in data.iter_mut().enumerate() {
                if b.is_ascii_lowercase() && (!alt || i % 2 == 0) {
                    *b = b.to_ascii_uppercase();
                    changed = true;
                }
            }
            changed
        }
        "text_ws" => {
            // whitespace in front of, inside or behind the text
            let p = jusize(f, "pos").min(data.len());
            let ws = jhex(f, "ws");
            data.splice(p..p, ws);
            true
        }
        "mb_tail" => {
            let text = String::from_utf8_lossy(data).to_string();
            let ch = jstr(f, "ch");
            // segment boundaries: '/', ' ' and the end of the text; seg counts from the end
            let mut ends: Vec<usize> = text.char_indices().filter(|(_, c)| *c == '/' || *c == ' ').map(|(i, _)| i).collect();
            ends.push(text.len());
            let at = ends[ends.len() - 1 - jusize(f, "seg").min(ends.len() - 1)];
            let mut out = String::new();
            let head = &text[..at];
            if jbool(f, "replace") && !head.is_empty() && !head.ends_with('/') && !head.ends_with(' ') {
                let mut h = head.to_string();
                h.pop();
                out.push_str(&h);
            } else {
                out.push_str(head);
            }
            out.push_str(ch);
            out.push_str(&text[at..]);
            *data = out.into_bytes();
            true
        }
        "ws_shell" => {
            let k = jusize(f, "core").min(data.len());
            let core: Vec<u8> = if jbool(f, "from_end") { data[data.len() - k..].to_vec() } else { data[..k].to_vec() };
            let ws = jhex(f, "ws").first().copied().unwrap_or(b' ');
            let mut lead = jusize(f, "lead");
            let trail = jusize(f, "trail");
            if jbool(f, "fit") {
                // total length equal to the well-formed text
                lead = data.len().saturating_sub(k + trail);
            }
            let mut v = vec![ws; lead];
            v.extend(core);
            v.extend(std::iter::repeat(ws).take(trail));
            *data = v;
            true
        }
        "lead_ones" => {
            // base58 strings with extra leading '1' characters (each stands for a zero byte)
            let k = jusize(f, "k").max(1);
            let mut v = vec![b'1'; k];
            v.extend(data.iter());
            *data = v;
            true
        }
        "empty" => {
            data.clear();
            true
        }
        "random" => {
            *data = jhex(f, "junk");
            true
        }
        "json_index_map" => {
            // the k-th array of the document becomes an object keyed by position, with a gap in the positions
            let mut doc: Value = match serde_json::from_slice(data) {
                Ok(d) => d,
                Err(_) => return false,
            };
            fn walk(v: &mut Value, k: &mut usize, gap: usize) -> bool {
                match v {
                    Value::Array(a) => {
                        if *k == 0 {
                            let mut m = serde_json::Map::new();
                            for (i, e) in a.iter().enumerate() {
                                m.insert(format!("{}", if i >= gap { i + 1 } else { i }), e.clone());
                            }
                            *v = Value::Object(m);
                            return true;
                        }
                        *k -= 1;
                        a.iter_mut().any(|e| walk(e, k, gap))
                    }
                    Value::Object(o) => o.values_mut().any(|e| walk(e, k, gap)),
                    _ => false,
                }
            }
            let mut k = jusize(f, "k");
            if walk(&mut doc, &mut k, jusize(f, "gap")) {
                *data = serde_json::to_vec(&doc).unwrap_or_default();
                true
            } else {
                false
            }
        }
        "json_value" => {
            // replace the k-th JSON value (the token after a ':' outside strings) by another JSON value
            let k = jusize(f, "k");
            let with = jstr(f, "with").as_bytes().to_vec();
            let mut in_str = false;
            let mut esc = false;
            let mut seen = 0usize;
            let mut i = 0usize;
            while i < data.len() {
                let c = data[i];
                if in_str {
                    if esc {
                        esc = false;
                    } else if c == b'\\' {
                        esc = true;
                    } else if c == b'"' {
                        in_str = false;
                    }
                } else if c == b'"' {
                    in_str = true;
                } else if c == b':' {
                    if seen == k {
                        // value runs to the next ',' '}' or ']' at this nesting level (strings respected)
                        let start = i + 1;
                        let mut j = start;
                        let mut depth = 0i32;
                        let mut s_in = false;
                        let mut s_esc = false;
                        while j < data.len() {
                            let d = data[j];
                            if s_in {
                                if s_esc {
                                    s_esc = false;
                                } else if d == b'\\' {
                                    s_esc = true;
                                } else if d == b'"' {
                                    s_in = false;
                                }
                            } else if d == b'"' {
                                s_in = true;
                            } else if d == b'{' || d == b'[' {
                                depth += 1;
                            } else if d == b'}' || d == b']' {
                                if depth == 0 {
                                    break;
                                }
                                depth -= 1;
                            } else if d == b',' && depth == 0 {
                                break;
                            }
                            j += 1;
                        }
                        data.splice(start..j, with);
                        return true;
                    }
                    seen += 1;
                }
                i += 1;
            }
            false
        }
        "token" => {
            // replace / insert one whitespace-separated token of a text artefact
            let k = jusize(f, "k");
            let with = jstr(f, "with").to_string();
            let text = String::from_utf8_lossy(data).to_string();
            let mut toks: Vec<String> = text.split(' ').map(|t| t.to_string()).collect();
            if toks.is_empty() {
                return false;
            }
            let pos = k % toks.len();
            if jbool(f, "insert") {
                toks.insert(pos, with);
            } else {
                toks[pos] = with;
            }
            *data = toks.join(" ").into_bytes();
            true
        }
        "cbor_nest" => {
            // n nested one-element array heads (0x81) in front of the item at pos: recursion probe for the CBOR decoders
            let p = jusize(f, "pos");
            if p > data.len() {
                return false;
            }
            let n = jusize(f, "n").min(400_000);
            data.splice(p..p, std::iter::repeat(0x81u8).take(n));
            true
        }
        "nest" => {
            // n x OP_IF ... n x OP_ENDIF around the artefact (recursion probe)
            let n = jusize(f, "n");
            let mut v = vec![0x63u8; n];
            v.extend(data.iter());
            v.extend(vec![0x68u8; n]);
            *data = v;
            true
        }
        _ => false,
    }
}

impl Scenario for ArtefactMedium {
    fn info(&self) -> ScenarioInfo {
        ScenarioInfo {
            property: "C09",
            name: "artefact-medium",
            rule: "one case = one valid artefact produced by the real encoder for one of 67 decoder kinds (or a hand-made one: DER whose lengths end at / before / past the buffer end, Base58Check with a correct checksum over a payload of the wrong size, extended keys with unusable key material), 0-3 medium faults (truncate at an offset, bit flip, byte set, length-field inflation with 39 compact-size / PUSHDATA / CBOR-head patterns, a length byte set to reach exactly to the end, last byte set to a tag/flag value, CBOR array nesting, JSON value substitution, text token substitution/insertion at located length offsets or seeded offsets, junk extension/prepend, splice, duplication, emptying, random replacement, conditional nesting), optional misdelivery to another decoder, then the real decode call under an allocator budget of 1024*len+8MiB in a worker whose death is attributed by breadcrumb; non-trivial = at least one fault or misdelivery fired; distinct = distinct (stored kind, consuming decoder, fault kinds and parameters classes, outcome) fingerprint",
            abstract_state: "(consuming decoder, fault-kind set, outcome ok/err)",
            real: &["67 public decoding entry points of bsv (Transaction/TxIn/TxOut wire+hex+CBOR+JSON, Script bytes/hex/asm/chunks, ScriptTemplate, PrivateKey WIF/hex/bytes, PublicKey, ExtendedPrivateKey/ExtendedPublicKey strings, paths, seeds, P2PKHAddress, Signature DER/compact, SighashSignature, ECIESCiphertext+decrypt, AES key/iv/ciphertext, digest-taking ECDSA entry points, serde JSON of TxIn/TxOut/Script/PublicKey/P2PKHAddress/Hash/KDF/Interpreter/State/ScriptBit/OpCodes/SigHash/ChainParams, BSM verify, from_mnemonic, template matching, from_coinbase_bytes)", "the real encoders as producers", "the process heap through a counting allocator that refuses over-budget requests", "process death (SIGABRT/SIGSEGV/SIGALRM) observed by the parent"],
            stub: &["the medium (byte-level fault plan)"],
            assumptions: &["alpha=1024, beta=8MiB: alpha calibrated as 4x the largest fault-free peak/len ratio observed; beta leaves room for constant-size scratch buffers (wire decode of dense one-byte-opcode scripts ~185x); the fault-free ratio histogram is written to evidence on every run", "text decoders receive String::from_utf8_lossy of the damaged bytes (Rust strings are valid UTF-8 by construction)", "overflow-checks are on, as in the repository's own test profile"],
            required_probes: &["fault:truncate", "fault:inflate", "fault:flip", "fault:json_value", "fault:token", "misdelivered", "decode_ok", "decode_err", "fault_free_decode"],
            quick_runs: 300000,
            thorough_runs: 12000000,
            rlimit_as: 8 << 30,
            alloc_abort_is_violation: true,
        }
    }

    fn generate(&self, rng: &mut Rng, tier: Tier, _index: u64) -> Plan {
        let kind = *rng.pick(KINDS);
        let deep = if rng.chance(1, 40) {
            if tier == Tier::Thorough && rng.chance(1, 4) {
                rng.range(1000, 200_000) as usize
            } else {
                rng.range(1, 3000) as usize
            }
        } else {
            0
        };
        let deep_capable = matches!(kind, "script_bytes" | "script_hex" | "script_chunks" | "script_asm" | "tx_bytes" | "tx_hex" | "txout_hex" | "txin_hex");
        let deep = if deep_capable { deep } else { 0 };
        // the library's encoders make the fault-free artefact; an encoder that panics is outside C09 (decoders) but must not pass
        // unseen: the plan records it and the run counts it
        let produced = guard(|| Self::produce(rng, kind, deep));
        let producer_panicked = produced.is_err();
        let (bin, offs) = produced.unwrap_or((vec![], vec![]));
        let as_hex = hex_of_binary(kind);
        let cbor_heads: Vec<(usize, usize)> = if kind.contains("cbor") { Self::cbor_heads(&bin) } else { vec![] };
        // deep artefacts are stored by recipe (kind, n) so plans and replay files stay small
        let mut events = if deep > 0 { vec![json!({"op": "store_deep", "kind": kind, "n": deep})] } else { vec![json!({"op": "store", "kind": kind, "data": hx(&bin), "hex_text": as_hex, "producer_panicked": producer_panicked})] };
        let mut len = bin.len();
        let n_faults = rng.weighted(&[10, 50, 25, 15]);
        for _ in 0..n_faults {
            let big = if tier == Tier::Thorough && rng.chance(1, 50) { 200_000 } else { 3000 };
            let json_kind = kind.starts_with("json_") || kind == "tx_json";
            let token_kind = matches!(kind, "script_asm" | "template_asm" | "template_match" | "xprv_path" | "xpub_path");
            let f = if json_kind && rng.chance(1, 12) {
                json!({"f": "json_index_map", "k": rng.below(4), "gap": rng.below(3)})
            } else if json_kind && rng.chance(1, 2) {
                json!({"f": "json_value", "k": rng.below(12), "with": *rng.pick(&["1", "-1", "0", "1e400", "18446744073709551616", "4294967296", "null", "true", "[]", "{}", "\"\"", "\"zz\"", "\"00\"", "\"aaaaaaaaaaaaaaaaaaaaaaaaaaaaaaaaaaaaaaaaaaaaaaaaaaaaaaaaaaaaaaa\"", "\"aaaaaaaaaaaaaaaaaaaaaaaaaaaaaaaaaaaaaaaaaaaaaaaaaaaaaaaaaaaaaaaaa\"", "\"0\"", "\"abc\"", "[1,2,3]", "{\"a\":1}", "1.5", "\"\u{e9}\u{20ac}\"", "\"0\u{e9}1\"", "\"\u{20ac}0\"", "\"z\u{e9}0\"", "\"00\u{e9}\"", "\"0\\u00e91\"", "99999999999999999999999999999999999999", "1.0", "-0", "1E2", "1e-2", "0.5e1", "\"\\ud83d\\ude00\"", "\"\\ud800\"", "\"\\u0000\"", "\"\\n\"", "[[]]", "{\"value\":1,\"value\":2}", "18446744073709551615", "-9223372036854775809", "1.8446744073709552e19"])})
            } else if token_kind && rng.chance(1, 2) {
                json!({"f": "token", "k": rng.below(16), "insert": rng.chance(1, 2), "with": *rng.pick(&["", "", "OP_PUSH", "OP_PUSHDATA1", "OP_PUSHDATA2", "OP_PUSHDATA4", "OP_PUSH 4294967295 00", "OP_PUSHDATA4 4294967296 00", "OP_PUSHDATA4 1073741824 00", "OP_PUSHDATA4 4294967295 00", "OP_PUSHDATA2 65535 00", "OP_PUSHDATA1 255 00", "OP_PUSH 75 00", "OP_PUSH 0 ", "OP_DATA20=", "OP_DATA==5", "OP_DATA=4294967296", "OP_DATA>=18446744073709551616", "OP_DATA<", "OP_DATA=", "OP_DATA=-1", "OP_DATA>", "0x", "zz", "é€", "a€", "OP_é", "17", "-1", "2147483648", "2147483647'", "4294967295", "4294967296", "2147483648h", "99999999999999999999", "'", "h", "/", "m", "m/", "0''", "OP_IF", "OP_ENDIF", "OP_ELSE", "\n", "\r", "\t", "m/0\u{2019}", "m/44\u{2019}/0\u{2019}", "m/0\u{2032}", "m/0\u{e9}", "m/\u{2019}", "m/0/\u{1f600}", "m/1\u{2019}/2h"])})
            } else if is_text_kind(kind) && rng.chance(1, 10) {
                match rng.below(5) {
                    // round 12: the text ends (or one of its path / token segments ends) in a character of 2-4 bytes, in place of
                    // or behind its last character - byte arithmetic on the tail of a str
                    4 => json!({"f": "mb_tail", "ch": *rng.pick(&["\u{2019}", "\u{2032}", "\u{e9}", "\u{20ac}", "\u{1f600}", "\u{2019}\u{2019}"]), "replace": rng.chance(1, 2), "seg": rng.below(4), "level": "text"}),
                    // round 11: almost nothing but spacing - a core of 0-3 characters of the text inside a shell of blanks, the whole
                    // as long as the well-formed text (so that length guards taken before and after trimming disagree)
                    3 => json!({"f": "ws_shell", "core": rng.below(4), "from_end": rng.chance(1, 2), "lead": *rng.pick(&[0u64, 1, 16, 32, 33, 34, 64]), "trail": *rng.pick(&[0u64, 0, 1, 16, 33, 64]), "fit": rng.chance(1, 2), "ws": *rng.pick(&["20", "20", "09", "0a", "0d"]), "level": "text"}),
                    0 => json!({"f": "text_case", "alt": rng.below(2), "level": "text"}),
                    1 => json!({"f": "text_ws", "pos": *rng.pick(&[0u64, 0, 1, 2, 7, 8, 1 << 20]), "ws": *rng.pick(&["20", "0a", "09", "0d0a", "2020", "00", "c2a0", "e28088", "0b", "0c", "c285", "e280a8", "e38080", "1c"]), "level": "text"}),
                    _ => json!({"f": "lead_ones", "k": *rng.pick(&[1u64, 2, 8, 40]), "level": "text"}),
                }
            } else if !offs.is_empty() && rng.chance(1, 8) {
                if rng.chance(2, 3) {
                    json!({"f": "len_to_end", "pos": *rng.pick(&offs), "short": rng.below(5), "past": if rng.chance(1, 6) { rng.range(1, 3) } else { 0 }})
                } else {
                    json!({"f": "set_last", "val": *rng.pick(&[0x02u64, 0x30, 0x00, 0x01, 0x41, 0xc3, 0xff, 0x80])})
                }
            } else { match rng.weighted(&[22, 10, 6, 26, 8, 3, 6, 2, 3, 4, 3]) {
                0 => json!({"f": "truncate", "k": if len > 0 { rng.usize(len) } else { 0 }}),
                1 => json!({"f": "flip", "pos": if len > 0 { rng.usize(len) } else { 0 }, "bit": rng.below(8)}),
                2 => json!({"f": "set", "pos": if len > 0 { rng.usize(len) } else { 0 }, "val": *rng.pick(&[0u64, 0xff, 0xfd, 0xfe, 0x4c, 0x4d, 0x4e, 0x63, 0x68, 0x80, 0x7f, 0x20, 0x20, 0x2f, 0x27, 0x30, 0x39, 0x68, 0x6d, 0x3d, 0x3e, 0x3c, 0x22, 0x7b, 0x5b, 0x2c, 0x3a, 0x2d, 0xc3, 0xe2])}),
                3 => {
                    if !cbor_heads.is_empty() && rng.chance(1, 8) {
                        let (pos, _) = *rng.pick(&cbor_heads);
                        json!({"f": "cbor_nest", "pos": pos, "n": if rng.chance(1, 3) { let _ = big; rng.range(1000, 200_000) } else { rng.range(1, 300) }})
                    } else if !cbor_heads.is_empty() && rng.chance(3, 4) {
                        // replace one CBOR head by another head (any major type) that declares an extreme length
                        let (pos, hl) = *rng.pick(&cbor_heads);
                        json!({"f": "inflate", "pos": pos, "pat": *rng.pick(&Self::INFLATE[16..]), "replace": hl})
                    } else {
                        let pos = if !offs.is_empty() && rng.chance(3, 4) { *rng.pick(&offs) } else if len > 0 { rng.usize(len + 1) } else { 0 };
                        json!({"f": "inflate", "pos": pos, "pat": *rng.pick(Self::INFLATE), "replace": *rng.pick(&[0u64, 1, 1, 1, 2, 3, 5, 9])})
                    }
                }
                4 => {
                    // rarely the artefact grows past the 16-bit boundary
                    let n = if rng.chance(1, 60) { *rng.pick(&[65_535usize, 65_536, 70_000]) } else { rng.range(1, 40) as usize };
                    json!({"f": "extend", "junk": hx(&rng.bytes(n))})
                }
                5 => {
                    let n = rng.range(1, 10) as usize;
                    json!({"f": "prepend", "junk": hx(&rng.bytes(n))})
                }
                6 => json!({"f": "splice", "from": if len > 0 { rng.usize(len) } else { 0 }, "n": rng.range(1, 16), "to": if len > 0 { rng.usize(len + 1) } else { 0 }}),
                7 => json!({"f": "dup"}),
                8 => json!({"f": "empty"}),
                9 => {
                    let n = rng.range(0, 80) as usize;
                    json!({"f": "random", "junk": hx(&rng.bytes(n))})
                }
                _ => json!({"f": "nest", "n": if rng.chance(1, 4) { rng.range(1000, big) } else { rng.range(1, 40) }}),
            } };
            // track length roughly for later offsets
            let mut tmp = vec![0u8; len];
            apply_fault(&mut tmp, &f);
            len = tmp.len();
            let mut ev = f.clone();
            ev["op"] = json!("fault");
            // text-level damage for text kinds half of the time (after hex encoding)
            if is_text_kind(kind) && as_hex && rng.chance(1, 3) {
                ev["level"] = json!("text");
            }
            events.push(ev);
        }
        let to = if rng.chance(1, 10) { *rng.pick(KINDS) } else { kind };
        events.push(json!({"op": "deliver", "to": to}));
        Plan { config: json!({"kind": kind, "n_faults": n_faults, "misdeliver": to != kind, "deep_nesting": deep}), events }
    }

    fn execute(&self, plan: &Plan, ctx: &mut RunCtx) {
        let mut medium: Option<(String, Vec<u8>, bool)> = None; // kind, bytes (binary form), hex_text
        let mut text_faults: Vec<Value> = vec![];
        let mut n_faults = 0;
        for (seq, ev) in plan.events.iter().enumerate() {
            if ctx.stopped() {
                return;
            }
            ctx.seq = seq;
            match jstr(ev, "op") {
                "store" => {
                    ctx.event(seq, "store", jstr(ev, "kind"));
                    if jbool(ev, "producer_panicked") {
                        ctx.probe(&format!("note:encoder_panicked_while_producing:{}", jstr(ev, "kind")));
                    }
                    medium = Some((jstr(ev, "kind").to_string(), jhex(ev, "data"), jbool(ev, "hex_text")));
                }
                "store_deep" => {
                    ctx.event(seq, "store_deep", jstr(ev, "kind"));
                    ctx.probe("deep_artefact");
                    let kind = jstr(ev, "kind").to_string();
                    let n = jusize(ev, "n").min(400_000);
                    let (bin, _) = Self::produce(&mut Rng::new(0), &kind, n);
                    medium = Some((kind.clone(), bin, hex_of_binary(&kind)));
                }
                "fault" => {
                    let m = match medium.as_mut() {
                        Some(m) => m,
                        None => {
                            ctx.skip();
                            continue;
                        }
                    };
                    if jstr(ev, "level") == "text" {
                        text_faults.push(ev.clone());
                        ctx.event(seq, "fault", &format!("text:{}", jstr(ev, "f")));
                        continue;
                    }
                    if apply_fault(&mut m.1, ev) {
                        ctx.event(seq, "fault", jstr(ev, "f"));
                        ctx.fault(&format!("fault:{}", jstr(ev, "f")));
                        ctx.probe(&format!("fault:{}", jstr(ev, "f")));
                        n_faults += 1;
                    } else {
                        ctx.skip();
                    }
                }
                "deliver" => {
                    let (kind, bytes, hex_text) = match medium.as_ref() {
                        Some(m) => m.clone(),
                        None => {
                            ctx.skip();
                            continue;
                        }
                    };
                    let to = jstr(ev, "to").to_string();
                    if !KINDS.contains(&to.as_str()) {
                        ctx.skip();
                        continue;
                    }
                    // what reaches the decoder
                    let _ = hex_text;
                    let mut input: Vec<u8> = if hex_of_binary(&to) { hx(&bytes).into_bytes() } else { bytes.clone() };
                    for tf in &text_faults {
                        if apply_fault(&mut input, tf) {
                            ctx.fault(&format!("fault:text-{}", jstr(tf, "f")));
                            n_faults += 1;
                        }
                    }
                    if to != kind {
                        ctx.fault("misdeliver");
                        ctx.probe("misdelivered");
                    }
                    ctx.event(seq, "deliver", &to);
                    if n_faults == 0 && to == kind {
                        ctx.probe("fault_free_decode");
                    }
                    let label = format!("decode:{}", to);
                    // a death is attributed to decoder and input size class: the known native-stack overflows need about 29 000 nested
                    // conditionals on an 8 MiB stack, and one conditional costs at least one byte of input, so the same abort on an
                    // input below 16 KiB is a different, unlisted defect
                    ctx.crumb(&format!("{}{}", label, if input.len() >= 16384 { " len>=16k" } else { "" }));
                    if is_base58_kind(&to) && input.len() > BASE58_CAP {
                        ctx.probe("skipped_base58_quadratic");
                        ctx.skip();
                        continue;
                    }
                    let budget = ALPHA * input.len() + if to.contains("cbor") { BETA_CBOR } else { BETA };
                    faults::mem_begin(budget);
                    let res = guard(|| consume(&to, &input));
                    let (peak, largest) = faults::mem_end();
                    match res {
                        Ok(outcome) => {
                            ctx.observe_str(outcome);
                            ctx.fp.str(outcome);
                            ctx.probe(if outcome == "ok" { "decode_ok" } else { "decode_err" });
                            ctx.state(&[crate::rng::fnv1a(to.as_bytes()), n_faults.min(3) as u64, (outcome == "ok") as u64]);
                            if n_faults == 0 && to == kind && !input.is_empty() {
                                let ratio = peak / input.len().max(1);
                                let bucket = match ratio {
                                    0..=1 => "le_1",
                                    2..=4 => "le_4",
                                    5..=16 => "le_16",
                                    17..=64 => "le_64",
                                    65..=256 => "le_256",
                                    257..=512 => "le_512",
                                    _ => "gt_512",
                                };
                                if input.len() >= 256 {
                                    ctx.probe(&format!("fault_free_peak_over_len_{}", bucket));
                                }
                                if outcome == "err" {
                                    ctx.probe(&format!("fault_free_err:{}", to));
                                }
                            }
                            // no single request may be sized by a declared length either: serde's cautious pre-allocation
                            // is capped at 1 MiB per sequence and growth by doubling is bounded by the bytes really present
                            if largest > ALPHA * input.len() + BETA {
                                if ctx.violate("alloc", format!("alloc-single-request@{}", label), format!("{} asked the allocator for {} bytes in one request while decoding a {}-byte input (limit {}*len + 8 MiB)", label, largest, input.len(), ALPHA)) {
                                    return;
                                }
                            }
                        }
                        Err(p) => {
                            let sig = format!("panic@{}#{}", site_file(&p.site), label);
                            if ctx.violate("panic", sig, format!("{} panicked on a {}-byte input at {}: {}", label, input.len(), p.site, p.msg)) {
                                return;
                            }
                        }
                    }
                    ctx.trace(|| format!("#{} deliver {} ({} bytes, {} faults) -> {:?}", seq, to, input.len(), n_faults, ctx_outcome(&input)));
                }
                _ => ctx.skip(),
            }
        }
    }

    fn shrink_event(&self, ev: &Event) -> Vec<Event> {
        let mut out = vec![];
        match jstr(ev, "op") {
            "store" => {
                let d = jhex(ev, "data");
                if d.len() > 1 {
                    for cut in [d.len() / 2, d.len() - 1] {
                        let mut e = ev.clone();
                        e["data"] = json!(hx(&d[..cut]));
                        out.push(e);
                    }
                    let mut e = ev.clone();
                    e["data"] = json!(hx(&vec![0u8; d.len()]));
                    out.push(e);
                }
            }
            "store_deep" => {
                if jusize(ev, "n") > 1 {
                    let mut e = ev.clone();
                    e["n"] = json!(jusize(ev, "n") * 3 / 4);
                    out.push(e);
                }
            }
            "fault" => {
                for key in ["k", "pos", "n", "to", "from"] {
                    if ev.get(key).is_some() && jusize(ev, key) > 0 {
                        let mut e = ev.clone();
                        e[key] = json!(jusize(ev, key) / 2);
                        out.push(e);
                        let mut e = ev.clone();
                        e[key] = json!(0);
                        out.push(e);
                    }
                }
                if jstr(ev, "f") == "nest" && jusize(ev, "n") > 1 {
                    let mut e = ev.clone();
                    e["n"] = json!(jusize(ev, "n") * 3 / 4);
                    out.push(e);
                }
                if ev.get("junk").is_some() {
                    let j = jhex(ev, "junk");
                    if j.len() > 1 {
                        let mut e = ev.clone();
                        e["junk"] = json!(hx(&j[..j.len() / 2]));
                        out.push(e);
                    }
                }
            }
            _ => {}
        }
        out
    }
}

fn ctx_outcome(input: &[u8]) -> String {
    hx(&input[..input.len().min(48)])
}
